/-
  C05 — calls bind by position, return the executed return value, and unwind cleanly.

  Theorems about `interpret_func_call_expr` (`evalCall`, `bindParams`, `callLoop`) for every state:
  parameters are bound by position in a fresh scope, missing arguments are nil, surplus arguments
  are not even evaluated; the body runs until a `ফেরত` is the current statement and the call
  evaluates to that statement's operand in the callee's scopes (nil for a bare `ফেরত;`, which is also
  what closes every definition); on return the scope stack, the loop stack and the if-flag stack are
  cut back to their heights at the call (fix F13: the pinned code left the callee's loops behind), so a
  `ফেরত` from any depth of blocks, conditionals and loops leaves none of them visible to the caller; the
  caller's statement position is untouched because expression evaluation never moves it (the model
  passes it by value).  Calling a non-function or a name with no declaration is a located error.
  Whole calls (refinement, `Lemmas/FrameInv.lean`): `body_is_structured` — running a function body
  `{ b } ফেরত re;` of a structured program is the structured meaning `sBody`: the block, then the operand of
  the first `ফেরত` reached (from any depth of blocks, chains and loops) or of the closing `ফেরত re;`;
  `call_is_bind_then_body` — a call of a user function as a whole is: positional binding in a fresh scope, `sBody`, cut back;
  `call_leaves_caller_frames` — ANY expression evaluation, whatever user functions it calls and to whatever
  recursion depth (direct or mutual), returns with the caller's loop stack, pending-conditional flags and scope
  depth exactly as they were.  That the caller's scopes below the cut keep their *contents* is the C04 lemma
  `assign_other_scopes_unchanged` applied per statement; its lifting along a whole body is not stated as one
  theorem and is decided by the C05 check (return position × call site matrix).
-/
import Pakhi.Lemmas.Control
import Pakhi.Lemmas.FrameInv
import Pakhi.Lemmas.Names

namespace Pakhi
namespace C05

/-- binding is by position: the first parameter takes the first argument's value … -/
theorem bind_positional (prog : List Stmt) (f : Nat) (cur : List Stmt) (p : Str) (ps : List Str) (a : Expr) (rest : Exprs)
    (env : Scope) (s s1 : St) (v : Val) (ha : eval prog f cur a s = .ok (v, s1)) :
    bindParams prog (f+1) cur (p :: ps) (.cons a rest) env s = bindParams prog f cur ps rest (assocSet env p v) s1 := by
  simp [bindParams, ha]

/-- … a parameter without argument is nil … -/
theorem bind_missing_is_nil (prog : List Stmt) (f : Nat) (cur : List Stmt) (p : Str) (ps : List Str) (env : Scope) (s : St) :
    bindParams prog (f+1) cur (p :: ps) .nil env s = bindParams prog f cur ps .nil (assocSet env p .nil) s := by
  simp [bindParams]

/-- … and surplus arguments are ignored without being evaluated -/
theorem bind_surplus_ignored (prog : List Stmt) (f : Nat) (cur : List Stmt) (args : Exprs) (env : Scope) (s : St) :
    bindParams prog (f+1) cur [] args env s = .ok (env, s) := by
  simp [bindParams]

/-- all parameters missing: every one of them is bound to nil, the state is untouched -/
theorem bind_all_missing (prog : List Stmt) (cur : List Stmt) : ∀ (ps : List Str) (f : Nat) (env : Scope) (s : St), ps.length < f →
    bindParams prog f cur ps .nil env s = .ok (ps.foldl (fun e p => assocSet e p .nil) env, s)
  | [], f, env, s, h => by
      obtain ⟨k, rfl⟩ : ∃ k, f = k + 1 := ⟨f - 1, by simp at h; omega⟩
      simp [bindParams]
  | p :: ps, f, env, s, h => by
      obtain ⟨k, rfl⟩ : ∃ k, f = k + 1 := ⟨f - 1, by simp at h; omega⟩
      rw [bind_missing_is_nil, bind_all_missing prog cur ps k _ s (by simp at h; omega)]
      rfl

/-- the body runs until a `ফেরত` is current; the call's value is that statement's operand, evaluated in the
    callee's scopes at that point -/
theorem return_value (prog : List Stmt) (f : Nat) (e : Expr) (m : Meta) (rest : List Stmt) (s : St) :
    callLoop prog (f+1) (.ret e m :: rest) s = eval prog f (.ret e m :: rest) e s := by
  simp [callLoop]

/-- a bare `ফেরত;` — also the one that closes every function definition — yields nil -/
theorem bare_return_is_nil (prog : List Stmt) (f : Nat) (m : Meta) (rest : List Stmt) (s : St) :
    callLoop prog (f+2) (.ret (.nil m) m :: rest) s = .ok (.nil, s) := by
  simp [callLoop, eval]

/-- any other statement is executed and the loop goes on from where it leads -/
theorem body_step (prog : List Stmt) (f : Nat) (st : Stmt) (rest cur' : List Stmt) (s s' : St)
    (hst : ∀ e m, st ≠ .ret e m) (hx : exec prog f (st :: rest) s = .ok (cur', s')) :
    callLoop prog (f+1) (st :: rest) s = callLoop prog f cur' s' := by
  cases st <;> simp_all [callLoop]

/-- C05 `call_unwinds`: whatever the body did — returned from inside nested blocks, conditionals or loops —
    after the call the scope stack, the loop stack and the flag stack have exactly their heights at the call,
    and what remains of them is the bottom part of the callee's final stacks -/
theorem call_unwinds (prog : List Stmt) (f : Nat) (cur : List Stmt) (tok : Token) (m0 : Meta) (args : Exprs) (s s1 s2 : St)
    (rem : Nat) (params : List Str) (env : Scope) (v : Val) (bm : Meta) (body : List Stmt)
    (hnb : isBuiltin tok.lexeme = false)
    (hf : lookupVar s.scopes tok.lexeme = some (.func rem params))
    (hb : bindParams prog f cur params args [] s = .ok (env, s1))
    (hbody : bodyOf prog rem = .blockStart bm :: body)
    (hrun : callLoop prog f (.blockStart bm :: body) { s1 with scopes := env :: s1.scopes } = .ok (v, s2)) :
    evalCall prog (f+1) cur (.var tok m0) args s =
      .ok (v, { s2 with scopes := s2.scopes.drop (s2.scopes.length - s1.scopes.length),
                        loops := s2.loops.drop (s2.loops.length - s1.loops.length),
                        flags := s2.flags.drop (s2.flags.length - s1.flags.length) }) := by
  simp [evalCall, stripGroups, hnb, hf, hb, hbody, hrun]

/-- the heights are restored exactly whenever the callee did not pop below the call (always, for well-formed bodies) -/
theorem heights_restored {α} (l : List α) (n : Nat) (h : n ≤ l.length) : (l.drop (l.length - n)).length = n := by
  simp; omega

/-- redundant parentheses around the function name do not matter -/
theorem grouped_callee (prog : List Stmt) (f : Nat) (cur : List Stmt) (callee : Expr) (m : Meta) (args : Exprs) (s : St) :
    evalCall prog (f+1) cur (.group callee m) args s = evalCall prog (f+1) cur callee args s := by
  simp [evalCall, stripGroups]

/-- calling something that is not a function, or an undeclared name, is a located runtime error -/
theorem call_non_function (prog : List Stmt) (f : Nat) (st : Stmt) (rest : List Stmt) (tok : Token) (m0 : Meta) (args : Exprs) (s : St)
    (hnb : isBuiltin tok.lexeme = false) :
    (lookupVar s.scopes tok.lexeme = none →
        ∃ e, evalCall prog (f+1) (st :: rest) (.var tok m0) args s = .err e ∧ e.cls = .runtime ∧ e.line = st.meta.line) ∧
    (∀ v, lookupVar s.scopes tok.lexeme = some v → (∀ r ps, v ≠ .func r ps) →
        ∃ e, evalCall prog (f+1) (st :: rest) (.var tok m0) args s = .err e ∧ e.cls = .runtime ∧ e.line = tok.line) := by
  constructor
  · intro h; simp [evalCall, stripGroups, hnb, h, stmtErr, mkErr, Res.tagOut]
  · intro v h hv
    cases v <;> first | exact absurd rfl (hv _ _) | simp [evalCall, stripGroups, hnb, h, metaErr, mkErr, Res.tagOut]

/-- a definition stores a function value whose body is the code between `{` and the closing `ফেরত;`, and
    execution continues behind the definition without running the body -/
theorem definition_skips_body (prog : List Stmt) (ftok : Token) (vm hm : Meta) (args : Exprs) (params : List Str) (body : SBlock)
    (re : Expr) (rm : Meta) (after : List Stmt) (s : St) (sc : Scope) (r : List Scope)
    (hp : paramNames args = some params) (hs : s.scopes = sc :: r) (hw : body.WF) :
    execFuncDef prog (.expr (.call (.var ftok vm) args hm) hm :: (body.flatten ++ (.ret re rm :: after))) s =
      .ok (after, { s with scopes := assocSet sc ftok.lexeme (.func (body.flatten ++ (.ret re rm :: after)).length params) :: r }) := by
  simp [execFuncDef, hp, hs, declareVar, skipBlock_whole_block body _ hw]


/-- **the body of a call is its structured meaning** -/
theorem body_is_structured {prog : List Stmt} (h : Structured prog) (b : SBlock) (re : Expr) (rm : Meta) (k : List Stmt) (hw : b.WF)
    (hc : b.Closed false) (hsuf : IsSuffixOf (b.flatten ++ (.ret re rm :: k)) prog) (s : St) (hs : StOK (GoodFn prog) prog s)
    (F : Nat) (r : Res (Val × St)) (hrun : callLoop prog F (b.flatten ++ (.ret re rm :: k)) s = r) (hr : r ≠ .fuel) :
    sBody prog F b re rm k s = r :=
  call_refines h b re rm k hw hc hsuf s hs F r hrun hr

/-- **a call unwinds cleanly**: evaluating any expression of a structured program — with calls, recursion, returns from
    inside loops and conditionals of the callee — leaves the caller's loops, pending conditionals and scope depth unchanged -/
theorem call_leaves_caller_frames {prog : List Stmt} (h : Structured prog) (f : Nat) (cur : List Stmt) (e : Expr) (s : St) (v : Val) (s' : St)
    (hsuf : IsSuffixOf cur prog) (hw : e.wf = true) (hs : StOK (GoodFn prog) prog s) (he : eval prog f cur e s = .ok (v, s')) :
    s'.loops = s.loops ∧ s'.flags = s.flags ∧ s'.scopes.length = s.scopes.length :=
  eval_frame h f cur e s v s' hsuf hw hs he


/-- **a call, as a whole**: in a structured program a call of a user function is: bind the arguments to the parameters by
    position in a fresh scope (`bindParams`), run the structured meaning of the function's body `{ b } ফেরত re;` there
    (`sBody`: the value of the first `ফেরত` reached, from whatever depth), and cut the scope, loop and flag stacks back to
    their heights before the call -/
theorem call_is_bind_then_body {prog : List Stmt} (h : Structured prog) (F : Nat) (cur : List Stmt) (callee : Expr) (args : Exprs)
    (s : St) (tok : Token) (vm : Meta) (rem : Nat) (params : List Str) (env : Scope) (s1 : St) (r : Res (Val × St))
    (hsuf : IsSuffixOf cur prog) (hargs : args.wf = true) (hs : StOK (GoodFn prog) prog s)
    (hcallee : stripGroups callee = .var tok vm) (hnb : isBuiltin tok.lexeme = false)
    (hlook : lookupVar s.scopes tok.lexeme = some (.func rem params))
    (hbind : bindParams prog F cur params args [] s = .ok (env, s1))
    (hrun : evalCall prog (F+1) cur callee args s = r) (hr : r ≠ .fuel) :
    ∃ b re rm k, bodyOf prog rem = SBlock.flatten b ++ (Stmt.ret re rm :: k) ∧
      r = (sBody prog F b re rm k { s1 with scopes := env :: s1.scopes }).bind fun x =>
        .ok (x.1, { x.2 with
          scopes := x.2.scopes.drop (x.2.scopes.length - s1.scopes.length)
          loops := x.2.loops.drop (x.2.loops.length - s1.loops.length)
          flags := x.2.flags.drop (x.2.flags.length - s1.flags.length) }) := by
  have hgf : GoodFn prog rem params := by
    have := lookupVar_ok (GoodFn prog) hs.scopes.2 hlook
    simpa [ValOK] using this
  obtain ⟨b, re, rm, k, hbody, hwf, hcl⟩ := hgf
  refine ⟨b, re, rm, k, hbody, ?_⟩
  have hgood := (h.inv F).bindParams cur params args [] s hsuf hargs hs (by intro kv hkv; simp at hkv)
  rw [hbind] at hgood
  obtain ⟨hs1, henv, _⟩ := hgood
  have hs1' : StOK (GoodFn prog) prog { s1 with scopes := env :: s1.scopes } := ⟨hs1.heap, hs1.scopes.cons _ henv, hs1.loops⟩
  have hbs : IsSuffixOf (SBlock.flatten b ++ (Stmt.ret re rm :: k)) prog := by rw [← hbody]; exact bodyOf_suffix prog rem
  simp only [evalCall, hcallee, hnb, hlook, hbind, Res.bind, hbody] at hrun
  cases b with
  | mk bs ss be =>
    simp only [SBlock.flatten, List.cons_append] at hrun hbs hbody ⊢
    cases hcl2 : callLoop prog F (Stmt.blockStart bs :: (ss.flatten ++ [Stmt.blockEnd be] ++ Stmt.ret re rm :: k)) { s1 with scopes := env :: s1.scopes } with
    | fuel =>
      simp only [Bool.false_eq_true, if_false, hcl2] at hrun
      exact (hr hrun.symm).elim
    | ok x =>
      have := call_refines h (.mk bs ss be) re rm k hwf hcl (by simpa [SBlock.flatten] using hbs) _ hs1' F _
        (by simpa [SBlock.flatten] using hcl2) (by simp)
      simp only [Bool.false_eq_true, if_false, hcl2] at hrun
      rw [this, ← hrun]; rfl
    | err e =>
      have := call_refines h (.mk bs ss be) re rm k hwf hcl (by simpa [SBlock.flatten] using hbs) _ hs1' F _
        (by simpa [SBlock.flatten] using hcl2) (by simp)
      simp only [Bool.false_eq_true, if_false, hcl2] at hrun
      rw [this, ← hrun]; rfl
    | panic p =>
      have := call_refines h (.mk bs ss be) re rm k hwf hcl (by simpa [SBlock.flatten] using hbs) _ hs1' F _
        (by simpa [SBlock.flatten] using hcl2) (by simp)
      simp only [Bool.false_eq_true, if_false, hcl2] at hrun
      rw [this, ← hrun]; rfl
/-! ### Names (whole-body statements, `Lemmas/Names.lean`) -/

/-- **a call leaves the caller's names alone**: evaluating any expression — calls of user functions to any depth included,
    with whatever their bodies declare — returns with every scope binding exactly the names it bound before -/
theorem expression_keeps_names {prog : List Stmt} (h : Structured prog) (f : Nat) (cur : List Stmt) (e : Expr) (s s' : St) (v : Val)
    (hsuf : IsSuffixOf cur prog) (hw : e.wf = true) (hs : StOK (GoodFn prog) prog s)
    (hrun : eval prog f cur e s = .ok (v, s')) : K s' = K s :=
  ((namesInv_all h f f (Nat.le_refl _)).eval cur e s hsuf hw hs).of_ok hrun

/-- the flat call loop: when a function returns, the scopes of the caller are still below whatever the body pushed, with
    exactly their names (the parameter scope may have gained the body's top-level declarations) -/
theorem call_keeps_caller_names {prog : List Stmt} (h : Structured prog) (f : Nat) (body : List Stmt) (s s2 : St) (v : Val)
    (hgb : GoodBody body) (hsuf : IsSuffixOf body prog) (hs : StOK (GoodFn prog) prog s)
    (hrun : callLoop prog f body s = .ok (v, s2)) : ∃ extra ext, K s2 = extra ++ grow ext (K s) :=
  callNames_of h f (fun g _ => namesInv_all h g g (Nat.le_refl _)) body s v s2 hgb hsuf hs hrun
end C05
end Pakhi
