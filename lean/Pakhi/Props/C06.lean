/-
  C06 — lists and records are shared by reference; indexed write then read agree.

  Heap algebra on the two arenas.  A container value is an arena index, so assignment, argument
  passing, returning and storing copy the index: every alias denotes the same cell.  Proved here:
  write-then-read on the addressed cell, the frame property stated on *cells* (hence sound under
  any aliasing), the path walker crossing lists and records in any mix, fresh allocation, and that
  list concatenation yields a cell distinct from both operands which are left unchanged.
  Statement refinement: "reading the same path yields v" needs the addressed cell not to be one of
  the cells the path itself walks through (`a[০] = a` makes a cycle in which the path changes
  meaning); for tree- and DAG-shaped data this always holds.
-/
import Pakhi.Lemmas.Assoc
namespace Pakhi
namespace C06

theorem list_set_get_same {α} (l : List α) (p : Nat) (v : α) (h : p < l.length) : (l.set p v)[p]? = some v := by
  simp [h]

theorem list_set_get_other {α} (l : List α) (p q : Nat) (v : α) (h : p ≠ q) : (l.set p v)[q]? = l[q]? := by
  simp [h]

/-- one-level write to a list then read of the same position gives the value written -/
theorem write_read_list (cur : List Stmt) (m : Meta) (a : Nat) (n : Num.Bits) (v : Val) (h h' : Heap)
    (hw : assignPath cur (.list a) [.pos n] v h = .ok h') :
    indexVal m (.list a) (.num n) h' = .ok v := by
  simp only [assignPath] at hw
  cases hl : h.lists[a]? with
  | none => simp [hl] at hw
  | some l =>
    simp only [hl] at hw
    cases hp : listPosition n l.length with
    | none => simp [hp, stmtErr] at hw; cases cur <;> simp [mkErr, unexpected] at hw
    | some p =>
      simp [hp] at hw
      subst hw
      have hlt : p < l.length := by
        unfold listPosition at hp; split at hp <;> simp at hp; rename_i hc; simp at hc; omega
      have ha : a < h.lists.length := by
        have := List.getElem?_eq_some_iff.mp hl; exact this.1
      simp [indexVal, List.getElem?_set, ha, hp, hlt]

/-- one-level write to a record then read of the same key gives the value written (the key is added
    if it was missing) -/
theorem write_read_record (cur : List Stmt) (m : Meta) (a : Nat) (k : Str) (v : Val) (h h' : Heap)
    (hw : assignPath cur (.record a) [.key k] v h = .ok h') :
    indexVal m (.record a) (.str k) h' = .ok v := by
  simp only [assignPath] at hw
  cases hr : h.records[a]? with
  | none => simp [hr] at hw
  | some r =>
    simp [hr] at hw
    subst hw
    have ha : a < h.records.length := (List.getElem?_eq_some_iff.mp hr).1
    simp [indexVal, List.getElem?_set, ha, assocGet_set_same]

/-- frame: a one-level list write changes exactly the addressed cell: every other list, every other
    position of the same list and every record are unchanged -/
theorem write_frame_list (cur : List Stmt) (a : Nat) (n : Num.Bits) (v : Val) (h h' : Heap)
    (hw : assignPath cur (.list a) [.pos n] v h = .ok h') :
    h'.records = h.records ∧ h'.freeLists = h.freeLists ∧ h'.freeRecords = h.freeRecords ∧ h'.lists.length = h.lists.length ∧
    (∀ b, b ≠ a → h'.lists[b]? = h.lists[b]?) ∧
    (∀ l l' p, h.lists[a]? = some l → h'.lists[a]? = some l' → listPosition n l.length = some p →
        l'.length = l.length ∧ ∀ q, q ≠ p → l'[q]? = l[q]?) := by
  simp only [assignPath] at hw
  cases hl : h.lists[a]? with
  | none => simp [hl] at hw
  | some l =>
    simp only [hl] at hw
    cases hp : listPosition n l.length with
    | none => simp [hp, stmtErr] at hw; cases cur <;> simp [mkErr, unexpected] at hw
    | some p =>
      simp [hp] at hw
      subst hw
      have ha : a < h.lists.length := (List.getElem?_eq_some_iff.mp hl).1
      refine ⟨rfl, rfl, rfl, by simp, ?_, ?_⟩
      · intro b hb; simp [Ne.symm hb]
      · intro l0 l' p' h0 h1 hp'
        simp at h0; subst h0
        simp [ha] at h1; subst h1
        rw [hp] at hp'; simp at hp'; subst hp'
        refine ⟨by simp, ?_⟩
        intro q hq; simp [Ne.symm hq]

/-- frame for a one-level record write -/
theorem write_frame_record (cur : List Stmt) (a : Nat) (k : Str) (v : Val) (h h' : Heap)
    (hw : assignPath cur (.record a) [.key k] v h = .ok h') :
    h'.lists = h.lists ∧ h'.freeLists = h.freeLists ∧ h'.freeRecords = h.freeRecords ∧ h'.records.length = h.records.length ∧
    (∀ b, b ≠ a → h'.records[b]? = h.records[b]?) ∧
    (∀ r r' k2, h.records[a]? = some r → h'.records[a]? = some r' → k2 ≠ k → assocGet r' k2 = assocGet r k2) := by
  simp only [assignPath] at hw
  cases hr : h.records[a]? with
  | none => simp [hr] at hw
  | some r =>
    simp [hr] at hw
    subst hw
    have ha : a < h.records.length := (List.getElem?_eq_some_iff.mp hr).1
    refine ⟨rfl, rfl, rfl, by simp, ?_, ?_⟩
    · intro b hb; simp [Ne.symm hb]
    · intro r0 r' k2 h0 h1 hk
      simp at h0; subst h0
      simp [ha] at h1; subst h1
      exact assocGet_set_other _ k k2 v (Ne.symm hk)

/-- a longer path is followed container by container: the first index selects the next container and
    the write continues from there (lists and records in any mix) -/
theorem assignPath_step_list (cur : List Stmt) (a : Nat) (n : Num.Bits) (ix : Index) (rest : List Index) (v c' : Val) (h : Heap)
    (l : List Val) (p : Nat) (hl : h.lists[a]? = some l) (hp : listPosition n l.length = some p) (hc : l[p]? = some c') :
    assignPath cur (.list a) (.pos n :: ix :: rest) v h = assignPath cur c' (ix :: rest) v h := by
  simp [assignPath, hl, hp, hc]

theorem assignPath_step_record (cur : List Stmt) (a : Nat) (k : Str) (ix : Index) (rest : List Index) (v c' : Val) (h : Heap)
    (r : RecordObj) (hr : h.records[a]? = some r) (hc : assocGet r k = some c') :
    assignPath cur (.record a) (.key k :: ix :: rest) v h = assignPath cur c' (ix :: rest) v h := by
  simp [assignPath, hr, hc]

/-- allocation hands out either a recycled free slot or a new slot at the end, stores the content
    there and leaves every other slot alone (`hfree`: free indices are arena slots, an invariant
    established by the sweep) -/
theorem allocList_spec (h : Heap) (l : List Val) (hfree : ∀ i ∈ h.freeLists, i < h.lists.length) :
    ∃ i, (h.allocList l).1 = .list i ∧ (h.allocList l).2.lists[i]? = some l ∧
      (i = h.lists.length ∨ (h.freeLists.head? = some i ∧ (h.allocList l).2.freeLists = h.freeLists.tail)) ∧
      (∀ j, j ≠ i → j < h.lists.length → (h.allocList l).2.lists[j]? = h.lists[j]?) ∧
      (h.allocList l).2.records = h.records := by
  unfold Heap.allocList
  cases hf : h.freeLists with
  | nil =>
    refine ⟨h.lists.length, ?_⟩
    simp
    intro j hj hlt; simp [List.getElem?_append, hlt]
  | cons i rest =>
    have hi : i < h.lists.length := hfree i (by simp [hf])
    refine ⟨i, ?_⟩
    simp [hi]
    intro j hj _; simp [Ne.symm hj]

/-- `a + b` on lists: the result is a new list value whose cell is neither operand's cell when the
    slot is new, so later growth or element replacement of the result does not show through the
    operands (and vice versa, by the frame theorems) -/
theorem concat_fresh (m : Meta) (i j : Nat) (a b : List Val) (h : Heap) (hi : h.lists[i]? = some a) (hj : h.lists[j]? = some b)
    (hnofree : h.freeLists = []) :
    ∃ k h', addSub .plus m (.list i) (.list j) h = .ok (.list k, h') ∧ k ≠ i ∧ k ≠ j ∧
      h'.lists[k]? = some (a ++ b) ∧ h'.lists[i]? = some a ∧ h'.lists[j]? = some b := by
  have hil : i < h.lists.length := (List.getElem?_eq_some_iff.mp hi).1
  have hjl : j < h.lists.length := (List.getElem?_eq_some_iff.mp hj).1
  refine ⟨h.lists.length, _, by simp [addSub, hi, hj, Heap.allocList, hnofree]; rfl, by omega, by omega, ?_, ?_, ?_⟩
  · simp
  · simp [List.getElem?_append, hil]; exact (List.getElem?_eq_some_iff.mp hi).2
  · simp [List.getElem?_append, hjl]; exact (List.getElem?_eq_some_iff.mp hj).2
end C06
end Pakhi
