/-
  C07 — garbage collection is invisible: it never frees or alters reachable data.

  Heap level (full): for every heap — any sharing, cycles, list↔record nesting — and every set of
  open scopes, a collection that completes leaves the content of every container reachable from a
  variable in any open scope exactly as it was, keeps both arenas' sizes, and puts on the free
  lists only slots that were already free or are unreachable; the marker marks a container if and
  only if it is reachable (`mark_exact`), so nothing reachable is ever emptied or handed out again.
  Under the run-time invariant `StOK` (which every state of every run satisfies, `C13.run_keeps_invariant`)
  a collection never panics and leaves the heap well formed (`collect_never_panics`,
  `collect_keeps_heap_wellformed`), so a collection may be inserted after any statement of any run.
  Program level (full): `gc_invisible` — for every well-formed statement list, every world and ANY two collection
  schedules (never / always / native threshold / arbitrary masks), two runs that terminate agree on everything
  observable: the same end status, and then the same output and world, or the same error (class, line, file, message,
  output so far).  Proof (`Lemmas/Ren.lean`, `RenEval.lean`, `GcInvisible.lean`): a renaming ρ of arena indexes relates
  the collection-free run to the collected one; every evaluator function, all 17 built-ins, indexed assignment, printing
  and allocation commute with ρ (allocation extends ρ by the fresh pair — the recycled slot on one side, the appended
  slot on the other — using that free slots are never in the range of ρ and free stacks have no duplicates); a
  collection keeps the states related after ρ is cut down to the reachable slots (`collect_rel`, from `mark_exact` +
  the sweep specification).  Collections happen only between top-level statements, where no temporaries are alive —
  which is exactly the modelled behaviour of `Interpreter::run` and what the seeded change C07/C19b violates.
  `collect_total`: under the run-time invariant a collection always completes (no panic; the marker's fuel bound
  `markFuel` is proved sufficient for every heap, `Lemmas/MarkFuel.lean`).
-/
import Pakhi.Lemmas.Collect
import Pakhi.Lemmas.EvalInv
import Pakhi.Lemmas.GcInvisible
import Pakhi.Lemmas.Mono
import Pakhi.Lemmas.MarkFuel

namespace Pakhi
namespace C07

/-- the marker marks exactly the reachable containers -/
theorem mark_exact (h : Heap) (f : Nat) (roots : List Val) (m' : Marks)
    (hx : markRoots h f roots (Marks.init h) = .ok m') (v : Val) :
    isMarked m' v = true ↔ Reach h roots v := Pakhi.mark_exact h f roots m' hx v

/-- a collection never changes a reachable container and never resizes the arenas -/
theorem collect_preserves_reachable (scopes : List Scope) (h h' : Heap) (hc : collect scopes h = .ok h') :
    h'.lists.length = h.lists.length ∧ h'.records.length = h.records.length ∧
    (∀ i, Reach h (rootVals scopes) (.list i) → h'.lists[i]? = h.lists[i]?) ∧
    (∀ i, Reach h (rootVals scopes) (.record i) → h'.records[i]? = h.records[i]?) := by
  obtain ⟨m, _, rfl, hl, hr, hex⟩ := collect_unfold scopes h h' hc
  have sl := sweepArena_spec ([] : List Val) m.lists 0 h.lists h.freeLists
  have sr := sweepArena_spec ([] : RecordObj) m.records 0 h.records h.freeRecords
  obtain ⟨e1, e2, e3, e4⟩ := sweep_lists h m
  refine ⟨by simp [e1, sl.len], by simp [e3, sr.len], ?_, ?_⟩
  · intro i hi
    have hm := (isMarked_list_iff m i).mp ((hex _).mpr hi)
    have := sl.kept i hm
    simpa [e1] using this
  · intro i hi
    have hm := (isMarked_record_iff m i).mp ((hex _).mpr hi)
    have := sr.kept i hm
    simpa [e3] using this

/-- the reachable part of the object graph is unchanged: a reachable container has the same children -/
theorem collect_preserves_children (scopes : List Scope) (h h' : Heap) (hc : collect scopes h = .ok h')
    (v : Val) (hv : Reach h (rootVals scopes) v) : children h' v = children h v := by
  obtain ⟨_, _, hl, hr⟩ := collect_preserves_reachable scopes h h' hc
  cases v with
  | list i => simp [children, hl i hv]
  | record i => simp [children, hr i hv]
  | _ => rfl

/-- only slots that were free before or are unreachable are on the free lists afterwards, so (given
    that free slots were unreachable before) allocation never hands out a reachable slot -/
theorem collect_frees_only_unreachable (scopes : List Scope) (h h' : Heap) (hc : collect scopes h = .ok h') :
    (∀ j, j ∈ h'.freeLists → j ∈ h.freeLists ∨ ¬ Reach h (rootVals scopes) (.list j)) ∧
    (∀ j, j ∈ h'.freeRecords → j ∈ h.freeRecords ∨ ¬ Reach h (rootVals scopes) (.record j)) := by
  obtain ⟨m, _, rfl, hl, hr, hex⟩ := collect_unfold scopes h h' hc
  have sl := sweepArena_spec ([] : List Val) m.lists 0 h.lists h.freeLists
  have sr := sweepArena_spec ([] : RecordObj) m.records 0 h.records h.freeRecords
  obtain ⟨e1, e2, e3, e4⟩ := sweep_lists h m
  constructor
  · intro j hj
    rcases sl.sub j (by simpa [e2] using hj) with h1 | ⟨k, hk, rfl⟩
    · exact Or.inl h1
    · right; intro hreach
      have := (isMarked_list_iff m (0 + k)).mp ((hex _).mpr hreach)
      simp [hk] at this
  · intro j hj
    rcases sr.sub j (by simpa [e4] using hj) with h1 | ⟨k, hk, rfl⟩
    · exact Or.inl h1
    · right; intro hreach
      have := (isMarked_record_iff m (0 + k)).mp ((hex _).mpr hreach)
      simp [hk] at this

/-- `FreeUnref` is re-established by every collection: afterwards no free slot is reachable -/
theorem collect_free_unreachable (scopes : List Scope) (h h' : Heap) (hc : collect scopes h = .ok h')
    (hfree : ∀ j, j ∈ h.freeLists → ¬ Reach h (rootVals scopes) (.list j)) :
    ∀ j, j ∈ h'.freeLists → ¬ Reach h (rootVals scopes) (.list j) := by
  intro j hj
  rcases (collect_frees_only_unreachable scopes h h' hc).1 j hj with h1 | h1
  · exact hfree j h1
  · exact h1

/-- the variables themselves are not touched: `collect` takes the scopes read-only -/
theorem roots_are_all_scopes (scopes : List Scope) (n : Str) (v : Val) (sc : Scope)
    (hs : sc ∈ scopes) (hv : assocGet sc n = some v) (hr : isRef v = true) : v ∈ rootVals scopes := by
  have hmem : v ∈ scopes.flatMap (fun s => s.map (·.2)) := by
    simp only [List.mem_flatMap, List.mem_map]
    refine ⟨sc, hs, ?_⟩
    clear hs
    induction sc with
    | nil => simp [assocGet] at hv
    | cons p r ih =>
      obtain ⟨k, x⟩ := p
      simp only [assocGet] at hv
      split at hv
      · simp at hv; exact ⟨(k, x), by simp, hv⟩
      · obtain ⟨q, hq, hq2⟩ := ih hv
        exact ⟨q, List.mem_cons_of_mem _ hq, hq2⟩
  cases v <;> simp_all [rootVals, isRef]

/-- non-vacuity: a 2-cycle 0 ⇄ 1 reachable from `x`, plus garbage slot 2 pointing into it -/
example : ∃ h', collect [[("x".toList, .list 0)]]
      { lists := [[.list 1], [.list 0, .num 5], [.list 0]], freeLists := [], records := [], freeRecords := [], allocCount := 7 } = .ok h'
    ∧ h'.lists = [[.list 1], [.list 0, .num 5], []] ∧ h'.freeLists = [2] := by
  refine ⟨_, rfl, ?_, ?_⟩ <;> decide

/-- a collection started in a state satisfying the run-time invariant never panics (no dangling root, no
    mark vector shorter than its arena), whatever the heap shape -/
theorem collect_never_panics (h : Heap) (scs : List Scope) (hh : HeapOK (fun _ _ => True) h)
    (hs : ScopesOK (fun _ _ => True) h scs) (p : String) : collect scs h ≠ .panic p :=
  (collect_ok (fun _ _ => True) hh hs).1 p

/-- … and the heap it returns is well formed again with arenas of the same size, so every reference that was
    valid before is valid after -/
theorem collect_keeps_heap_wellformed (h h' : Heap) (scs : List Scope) (hh : HeapOK (fun _ _ => True) h)
    (hs : ScopesOK (fun _ _ => True) h scs) (hc : collect scs h = .ok h') :
    HeapOK (fun _ _ => True) h' ∧ h'.lists.length = h.lists.length ∧ h'.records.length = h.records.length := by
  obtain ⟨a, b, c⟩ := (collect_ok (fun _ _ => True) hh hs).2 h' hc
  exact ⟨a, Nat.le_antisymm c.1 b.1, Nat.le_antisymm c.2 b.2⟩

/-- **garbage collection is invisible**: two terminated runs of a well-formed program under any two collection
    schedules (and any amounts of fuel) end the same way — same output and world, or the same error -/
theorem gc_invisible (prog : List Stmt) (hp : progWF prog = true) (g1 g2 : GcMode) (F1 F2 : Nat) (w : World) (r1 r2 : Res St)
    (h1 : runLoop prog g1 F1 0 prog (St.init w) = r1) (h2 : runLoop prog g2 F2 0 prog (St.init w) = r2)
    (hn1 : r1 ≠ .fuel) (hn2 : r2 ≠ .fuel) :
    (∃ s1 s2, r1 = .ok s1 ∧ r2 = .ok s2 ∧ s1.out = s2.out ∧ s1.world = s2.world) ∨ (∃ e, r1 = .err e ∧ r2 = .err e) := by
  have m1 := runLoop_mono prog g1 h1 hn1 F2
  have m2 := runLoop_mono prog g2 h2 hn2 F1
  rw [Nat.add_comm F2 F1] at m2
  have np1 : ∀ p, r1 ≠ .panic p := fun p e => Pakhi.run_never_panics prog hp g1 F1 0 w p (h1.trans e)
  have np2 : ∀ p, r2 ≠ .panic p := fun p e => Pakhi.run_never_panics prog hp g2 F2 0 w p (h2.trans e)
  exact gc_schedules_agree prog g1 g2 (F1 + F2) w r1 r2 m1 m2 ⟨hn1, np1⟩ ⟨hn2, np2⟩

/-- in particular the native schedule (collect when 1000 units were allocated) behaves like never collecting -/
theorem native_gc_is_invisible (prog : List Stmt) (hp : progWF prog = true) (F : Nat) (w : World) (s1 : St)
    (h1 : runLoop prog .native F 0 prog (St.init w) = .ok s1) :
    ∃ s0, runLoop prog .never F 0 prog (St.init w) = .ok s0 ∧ s0.out = s1.out ∧ s0.world = s1.world := by
  have o := runLoop_rel prog .native F 0 0 prog _ _ _ (sRel_init w)
  rw [h1] at o
  cases hr0 : runLoop prog .never F 0 prog (St.init w) with
  | ok s0 => rw [hr0] at o; obtain ⟨ρ, hs⟩ := o; exact ⟨s0, rfl, hs.out, hs.world⟩
  | err e => rw [hr0] at o; simp [ObsRel] at o
  | panic p => rw [hr0] at o; simp [ObsRel] at o
  | fuel => rw [hr0] at o; simp [ObsRel] at o

/-- **a collection always completes** in a state satisfying the run-time invariant: it neither panics nor runs out of the
    marker's fuel, whatever the heap shape (cycles, sharing, any size) -/
theorem collect_total (h : Heap) (scs : List Scope) (hh : HeapOK (fun _ _ => True) h) (hs : ScopesOK (fun _ _ => True) h scs) :
    ∃ h', collect scs h = .ok h' := by
  cases hc : collect scs h with
  | ok h' => exact ⟨h', rfl⟩
  | panic p => exact ((collect_ok (fun _ _ => True) hh hs).1 p hc).elim
  | fuel => exact (collect_never_out_of_fuel scs h hc).elim


/-- non-vacuity of the renaming relation behind `gc_invisible`: a collected heap in which slot 0 was recycled and the
    never-collected heap in which the same list lives in slot 1 are related by the renaming 1 ↦ 0 -/
example : HRel ⟨fun i j => i = 1 ∧ j = 0, fun _ _ => False⟩
    { lists := [[.num 7], [.num 5]], freeLists := [], records := [], freeRecords := [], allocCount := 0 }
    { lists := [[.num 5]], freeLists := [], records := [], freeRecords := [], allocCount := 0 } := by
  refine ⟨?_, ?_, ?_, ?_, ?_, ?_, ?_, ?_, ?_, ?_, ?_, ?_⟩
  · rintro i j j' ⟨_, rfl⟩ ⟨_, rfl⟩; rfl
  · rintro i i' j ⟨rfl, _⟩ ⟨rfl, _⟩; rfl
  · intro _ _ _ h; exact h.elim
  · intro _ _ _ h; exact h.elim
  · rintro i j ⟨rfl, rfl⟩; exact ⟨[.num 5], [.num 5], rfl, rfl, .cons rfl .nil⟩
  · intro _ _ h; exact h.elim
  · rintro i j ⟨rfl, rfl⟩; simp
  · intro _ _ h; exact h.elim
  · simp
  · simp
  · simp
  · simp
end C07
end Pakhi
