/-
  C08 — every collection reclaims all unreachable containers; heap stays bounded.
-/
import Pakhi.Lemmas.Collect
import Pakhi.Lemmas.MarkFuel
import Pakhi.Lemmas.HeapBound

namespace Pakhi
namespace C08

/-- after a collection every unreachable list / record is empty and on its free list; free lists
    stay duplicate-free and the allocation counter restarts at zero -/
theorem sweep_complete (scopes : List Scope) (h h' : Heap) (hc : collect scopes h = .ok h') :
    (∀ i, i < h.lists.length → ¬ Reach h (rootVals scopes) (.list i) → h'.lists[i]? = some [] ∧ i ∈ h'.freeLists) ∧
    (∀ i, i < h.records.length → ¬ Reach h (rootVals scopes) (.record i) → h'.records[i]? = some [] ∧ i ∈ h'.freeRecords) ∧
    (h.freeLists.Nodup → h'.freeLists.Nodup) ∧ (h.freeRecords.Nodup → h'.freeRecords.Nodup) ∧
    (∀ j, j ∈ h.freeLists → j ∈ h'.freeLists) ∧ (∀ j, j ∈ h.freeRecords → j ∈ h'.freeRecords) ∧
    h'.allocCount = 0 := by
  obtain ⟨m, _, rfl, hl, hr, hex⟩ := collect_unfold scopes h h' hc
  have sl := sweepArena_spec ([] : List Val) m.lists 0 h.lists h.freeLists
  have sr := sweepArena_spec ([] : RecordObj) m.records 0 h.records h.freeRecords
  obtain ⟨e1, e2, e3, e4⟩ := sweep_lists h m
  refine ⟨?_, ?_, by simpa [e2] using sl.nodup, by simpa [e4] using sr.nodup,
    by simpa [e2] using sl.sup, by simpa [e4] using sr.sup, rfl⟩
  · intro i hi hnr
    have hb : m.lists[i]? = some false := by
      have hlt : i < m.lists.length := by omega
      have hnm : ¬ m.lists[i]? = some true := fun hx => hnr ((hex _).mp ((isMarked_list_iff m i).mpr hx))
      cases hv : m.lists[i]? with
      | none => exact absurd (List.getElem?_eq_none_iff.mp hv) (by omega)
      | some b => cases b <;> simp_all
    have h1 := sl.emptied i hb (by simpa using hi)
    have h2 := sl.freed i hb
    exact ⟨by simpa [e1] using h1, by simpa [e2] using h2⟩
  · intro i hi hnr
    have hb : m.records[i]? = some false := by
      have hlt : i < m.records.length := by omega
      have hnm : ¬ m.records[i]? = some true := fun hx => hnr ((hex _).mp ((isMarked_record_iff m i).mpr hx))
      cases hv : m.records[i]? with
      | none => exact absurd (List.getElem?_eq_none_iff.mp hv) (by omega)
      | some b => cases b <;> simp_all
    have h1 := sr.emptied i hb (by simpa using hi)
    have h2 := sr.freed i hb
    exact ⟨by simpa [e3] using h1, by simpa [e4] using h2⟩

/-- reclaimed storage is reused before the heap grows: with a non-empty free list an allocation
    does not enlarge the arena and takes one slot off the free list -/
theorem alloc_reuses (h : Heap) (l : List Val) (r : RecordObj) :
    (h.freeLists ≠ [] → (h.allocList l).2.lists.length = h.lists.length ∧
        (h.allocList l).2.freeLists.length + 1 = h.freeLists.length) ∧
    (h.freeRecords ≠ [] → (h.allocRecord r).2.records.length = h.records.length ∧
        (h.allocRecord r).2.freeRecords.length + 1 = h.freeRecords.length) ∧
    (h.freeLists = [] → (h.allocList l).2.lists.length = h.lists.length + 1) ∧
    (h.freeRecords = [] → (h.allocRecord r).2.records.length = h.records.length + 1) := by
  refine ⟨?_, ?_, ?_, ?_⟩
  · intro hne; cases hf : h.freeLists with
    | nil => exact absurd hf hne
    | cons i rest => simp [Heap.allocList, hf]
  · intro hne; cases hf : h.freeRecords with
    | nil => exact absurd hf hne
    | cons i rest => simp [Heap.allocRecord, hf]
  · intro hf; simp [Heap.allocList, hf]
  · intro hf; simp [Heap.allocRecord, hf]

/-- every allocation, of empty containers too, advances the counter that triggers collections -/
theorem counter_progress (h : Heap) (l : List Val) (r : RecordObj) :
    (h.allocList l).2.allocCount = h.allocCount + l.length + 1 ∧
    (h.allocRecord r).2.allocCount = h.allocCount + r.length + 1 := by
  constructor
  · unfold Heap.allocList; cases h.freeLists <;> simp
  · unfold Heap.allocRecord; cases h.freeRecords <;> simp

/-- slots in use = arena size − free slots -/
def usedLists (h : Heap) : Nat := h.lists.length - h.freeLists.length

/-- one list allocation: the number of used slots grows by one and the arena grows only when no
    free slot is left, so `len ≤ max n0 used` is an invariant -/
theorem alloc_bound_step (h : Heap) (l : List Val) (n0 : Nat)
    (hfl : h.freeLists.length ≤ h.lists.length) (hinv : h.lists.length ≤ max n0 (usedLists h)) :
    let h' := (h.allocList l).2
    h'.freeLists.length ≤ h'.lists.length ∧ usedLists h' = usedLists h + 1 ∧ h'.lists.length ≤ max n0 (usedLists h') := by
  unfold usedLists at *
  cases hf : h.freeLists with
  | nil => simp [Heap.allocList, hf] at *; omega
  | cons i rest => simp [Heap.allocList, hf] at *; omega

/-- `heap_bounded` (lists; records are symmetric): `k` allocations after a state with `u` slots in
    use never make the arena larger than `max (size at that state) (u + k)`, whatever the contents -/
theorem heap_bounded (ls : List (List Val)) (h : Heap) (hfl : h.freeLists.length ≤ h.lists.length) :
    let hk := ls.foldl (fun acc l => (acc.allocList l).2) h
    hk.lists.length ≤ max h.lists.length (usedLists h + ls.length) := by
  suffices key : ∀ (ls : List (List Val)) (g : Heap) (n0 : Nat), g.freeLists.length ≤ g.lists.length →
      g.lists.length ≤ max n0 (usedLists g) →
      (ls.foldl (fun acc l => (acc.allocList l).2) g).lists.length ≤ max n0 (usedLists g + ls.length) by
    exact key ls h h.lists.length hfl (by omega)
  intro ls
  induction ls with
  | nil => intro g n0 _ hinv; simpa using hinv
  | cons l rest ih =>
    intro g n0 hf hinv
    obtain ⟨a, b, c⟩ := alloc_bound_step g l n0 hf hinv
    have := ih (g.allocList l).2 n0 a c
    simp only [List.foldl_cons, List.length_cons]
    rw [b] at this
    have e : usedLists g + 1 + rest.length = usedLists g + (rest.length + 1) := by omega
    rw [e] at this; exact this

/-- the native trigger: a collection runs at the first top-level statement boundary at which the
    counter has reached the threshold (1000, tied to the source by `SrcFactsAgree.threshold_agree`) -/
theorem native_trigger (k : Nat) (h : Heap) : GcMode.native.fires k h = true ↔ h.allocCount ≥ 1000 := by
  simp [GcMode.fires, gcThreshold]

/-- right after a collection the slots in use are exactly the reachable ones, provided the free list
    held no reachable slot, no duplicates and only arena slots before (the `FreeUnref` invariant) -/
theorem used_after_collect_le (scopes : List Scope) (h h' : Heap) (hc : collect scopes h = .ok h')
    (i : Nat) (hi : i < h'.lists.length) (hnf : i ∉ h'.freeLists) : Reach h (rootVals scopes) (.list i) := by
  have hlen := (C07_aux scopes h h' hc)
  by_cases hr : Reach h (rootVals scopes) (.list i)
  · exact hr
  · have := ((sweep_complete scopes h h' hc).1 i (by omega) hr).2
    exact absurd this hnf
where
  C07_aux (scopes : List Scope) (h h' : Heap) (hc : collect scopes h = .ok h') : h'.lists.length = h.lists.length := by
    obtain ⟨m, _, rfl, _, _, _⟩ := collect_unfold scopes h h' hc
    have sl := sweepArena_spec ([] : List Val) m.lists 0 h.lists h.freeLists
    simp [(sweep_lists h m).1, sl.len]

example : usedLists { lists := [[], [.nil], []], freeLists := [2, 0], records := [], freeRecords := [], allocCount := 0 } = 1 := by decide

/-- every collection terminates within the model's fuel bound, for every heap and every set of scopes -/
theorem collection_terminates (scopes : List Scope) (h : Heap) : collect scopes h ≠ .fuel :=
  collect_never_out_of_fuel scopes h

/-- **one statement, whatever it is and whatever it calls**: slots in use grow by at most the allocation units it spends, and
    an arena grows only when it has no free slot left (reuse before growth, lifted from single allocations to the whole
    evaluator: `hbInv`, all ten mutually recursive functions, no hypothesis) -/
theorem statement_reuses_before_growing (prog : List Stmt) (f : Nat) (cur cur' : List Stmt) (s s' : St)
    (h : exec prog f cur s = .ok (cur', s')) : HB s.heap s'.heap := by
  have := (hbInv prog f).exec cur s
  rw [h] at this; exact this

/-- spelled out for the list arena: after the statement the arena is no larger than before unless every slot is in use,
    and the slots in use grew by at most the units spent -/
theorem statement_arena_bound (prog : List Stmt) (f : Nat) (cur cur' : List Stmt) (s s' : St)
    (h : exec prog f cur s = .ok (cur', s')) (n0 : Int) (h0 : (s.heap.lists.length : Int) ≤ max n0 (usedL s.heap)) :
    (s'.heap.lists.length : Int) ≤ max n0 (usedL s'.heap) ∧
    usedL s'.heap + s.heap.allocCount ≤ usedL s.heap + s'.heap.allocCount :=
  ⟨(statement_reuses_before_growing prog f cur cur' s s' h).capL n0 h0, (statement_reuses_before_growing prog f cur cur' s s' h).usedL⟩

/-- a whole collection-free run -/
theorem collection_free_run_bounded (prog : List Stmt) (f k : Nat) (cur : List Stmt) (s s' : St)
    (h : runLoop prog .never f k cur s = .ok s') : HB s.heap s'.heap := runLoop_never_hb prog f k cur s s' h

/-- **the heap stays bounded over a whole run under the native trigger**, however many statements it executes: if (under
    some invariant `J` of the run) one top-level statement spends at most `A` allocation units and at most `L` slots per arena
    are in use right after a collection, no arena ever holds more than `L + gcThreshold + A` slots.  (`A` and `L` are properties of
    the program — its largest statement and its live data —, not of the number of iterations.) -/
theorem heap_bounded_whole_run (prog : List Stmt) (J : St → Prop) (L A : Nat)
    (hstep : ∀ f cur s cur' s', J s → exec prog f cur s = .ok (cur', s') → J s' ∧ s'.heap.allocCount ≤ s.heap.allocCount + A)
    (hgc : ∀ s h', J s → collect s.scopes s.heap = .ok h' →
      J { s with heap := h', gcCount := s.gcCount + 1 } ∧ usedL h' ≤ L ∧ usedR h' ≤ L)
    (w : World) (hJ0 : J (St.init w)) (f : Nat) (s' : St) (h : runLoop prog .native f 0 prog (St.init w) = .ok s') :
    s'.heap.lists.length ≤ L + gcThreshold + A ∧ s'.heap.records.length ≤ L + gcThreshold + A := by
  have := native_run_bounded prog J L A (L + gcThreshold + A) (Nat.le_refl _) hstep hgc f 0 prog (St.init w) s' hJ0 (bnd_init w L _) h
  exact ⟨this.lenL, this.lenR⟩

/-- non-vacuity: one allocation into a heap with a free slot is an instance of `HB` that does not grow the arena -/
example : ((({ lists := [[], [.nil]], freeLists := [0], records := [], freeRecords := [], allocCount := 0 } : Heap).allocList [.nil]).2).lists.length = 2 := by decide

end C08
end Pakhi
