/-
  C09 — numbers keep their value across literal, print and conversion.

  The decimal↔binary conversions themselves are Rust's `FromStr`/`Display` for `f64`; the model
  implements them exactly (`Num.parseF64`, `Num.display`) and the C09 check validates those two
  functions against the Rust standard library on every run.  What is proved here is everything
  around them: the literal scanner feeds *exactly* the ASCII transliteration of the literal to
  `parseF64` (so every digit counts: `১.০৫` is `parseF64 "1.05"`), the three digit tables are
  mutually inverse, and print → read is the identity whenever the two library functions satisfy
  their documented round-trip contract (hypothesis `hRT`, checked per value by the C09 check).
-/
import Pakhi.Lemmas.Digits

namespace Pakhi
namespace C09

/-- the Bangla→ASCII and ASCII→Bangla digit tables are mutually inverse bijections on digits -/
theorem digit_maps_inverse :
    (∀ c ∈ bnDigits, enToBn (bnToEn c) = c) ∧ (∀ c ∈ enDigits, bnToEn (enToBn c) = c) ∧
    (∀ d, d < 10 → bnDigitVal? (bnDigits.getD d ' ') = some d ∧ bnToEn (bnDigits.getD d ' ') = Num.digitChar d) :=
  ⟨digits_bn_en_inverse, digits_en_bn_inverse, digit_val_table⟩

/-- the lexer's digit table yields digit values only -/
theorem digit_value_bound (c : Char) (d : Nat) (h : bnDigitVal? c = some d) : d < 10 := bnDigitVal_lt c d h

/-- `literal_text_faithful`: for every literal `[-]d⁺[.d*]` (any number of digits, any split, leading and
    trailing zeros) followed by anything that cannot continue a number, the tokenizer's number scanner
    returns `parseF64` of the ASCII transliteration and consumes exactly the literal. -/
theorem literal_text_faithful (line : Nat) (file : Str) (neg : Bool) (ip fp : List Nat) (dot : Bool) (rest : Str)
    (hip : ip ≠ []) (hi : ∀ d ∈ ip, d < 10) (hf : ∀ d ∈ fp, d < 10) (hfp : dot = false → fp = [])
    (hstop : ∀ c, rest.head? = some c → (c == '.') = false ∧ isNumeric c = false) :
    let lit : Str := (if neg then ['-'] else []) ++ bnOf ip ++ (if dot then '.' :: bnOf fp else [])
    let ascii : Str := (if neg then ['-'] else []) ++ asciiOf ip ++ (if dot then '.' :: asciiOf fp else [])
    consumeNum (lit ++ rest) line file =
      (match Num.parseF64 ascii with
       | some b => .ok (b, lit.length)
       | none => mkErr .syntax line file "number-format") :=
  consumeNum_literal line file neg ip fp dot rest hip hi hf hfp hstop

/-- printing a finite number and reading the text back with `_সংখ্যা` gives the same number, provided
    Rust's `Display`/`FromStr` round-trip holds for this value (`hRT`) -/
theorem print_read_roundtrip (x : Num.Bits) (t : Str) (hfin : Num.isFinite x = true)
    (hRT : Num.parseF64 (Num.display x) = some x) (ht : toBnNum? x = some t) :
    bnStringToNum? t = some x := Pakhi.print_read_roundtrip x t hfin hRT ht

/-- `_স্ট্রিং(x)` yields the same text as printing `x` -/
theorem toString_is_print_text (x : Num.Bits) (t : Str) (ht : toBnNum? x = some t) : numToBnString x = t :=
  toString_eq_print x t ht

/-- `_সংখ্যা` rejects text that does not denote a finite number -/
theorem toNum_rejects (s : St) (t : Str) (h : bnStringToNum? t = none) :
    ∃ tag, callB .toNum [.str t] s = .inr tag := by
  simp [callB, h]

/-- `_সংখ্যা` of text whose ASCII form `parseF64` rejects, or maps to ±∞ / NaN, is rejected -/
theorem bnStringToNum_none_iff (t : Str) :
    bnStringToNum? t = none ↔
      (Num.parseF64 (t.map bnToEn) = none ∨ ∃ b, Num.parseF64 (t.map bnToEn) = some b ∧ Num.isFinite b = false) := by
  unfold bnStringToNum?
  cases h : Num.parseF64 (t.map bnToEn) with
  | none => simp
  | some b => by_cases hb : Num.isFinite b = true <;> simp [hb]

/-- non-vacuity: the hypotheses of `literal_text_faithful` are met by `২.২৮` followed by `;` -/
example : (bnOf [2] ++ '.' :: bnOf [2, 8]) = ['২', '.', '২', '৮'] ∧
    (∀ c, (";".toList).head? = some c → (c == '.') = false ∧ isNumeric c = false) := by
  constructor
  · decide
  · intro c h; simp at h; subst h; decide

end C09
end Pakhi
