import Pakhi.Model.Interp
