/-
  C10 — the tokenizer is total and loses nothing: every character, the right line.

  `tokenize_total`: for EVERY character sequence (any length, any characters, ending anywhere — in
  the middle of a number, a string, a comment, an escaped `#`) the tokenizer returns a token list or
  a syntax error with the fuel `|src| + 1` it is given: it never panics (every look-ahead is the
  pattern match of the suffix list, fixes F1/F2), never runs out of fuel (each step consumes at least
  one character, fix F3 — the former infinite loop) and so produces at most `|src| + 1` tokens.
  `tokenize_cover_and_lines`: on success the token list satisfies the layout specification `Lexes`
  (Lemmas/Layout.lean): walking the source from the start, every character is either a blank
  (space, tab, CR, newline) or the first character of the next token, whose lexeme is the source text
  verbatim (a string token: its content between quotes, the closing quote missing only at end of
  input; a comment: one token), whose line is 1 + the number of newlines before it — also after
  strings and comments spanning lines — and the list is closed by exactly one end marker.
  The same specification is evaluated independently (in Python) on the implementation's tokens by
  the C10 check over the exhaustive small alphabet.
-/
import Pakhi.Lemmas.Layout

namespace Pakhi
namespace C10

/-- one tokenizer step makes progress or reports a syntax error — never a panic, never zero width -/
theorem consume_progress (c : Char) (rest : Str) (line : Nat) (file : Str) (ao : Bool) :
    Consumed.Good (consume (c :: rest) line file ao) := consume_good c rest line file ao

/-- the tokenizer is total -/
theorem tokenize_total (src : Str) (file : Str) :
    (∃ toks, tokenize src file = .ok toks) ∨ (∃ e, tokenize src file = .err e ∧ e.cls = .syntax) :=
  Pakhi.tokenize_total src file

theorem tokenize_never_panics (src : Str) (file : Str) : (∀ p, tokenize src file ≠ .panic p) ∧ tokenize src file ≠ .fuel := by
  rcases Pakhi.tokenize_total src file with ⟨t, h⟩ | ⟨e, h, _⟩ <;> simp [h]

/-- the tokens account for every non-blank character exactly once, in order, with the right lines -/
theorem tokenize_cover_and_lines (src file : Str) (toks : List Token) (h : tokenize src file = .ok toks) :
    ∃ body, toks = body ++ [eotToken file] ∧ Lexes src 1 body ∧ ∀ t ∈ body, t.kind ≠ .eot := by
  obtain ⟨body, h1, h2⟩ := tokenize_lexes src file toks h
  exact ⟨body, h1, h2, lexes_no_eot h2⟩

/-- what the specification says about one token -/
theorem lexes_head (t : Token) (src : Str) (line : Nat) (toks : List Token) (h : Lexes src line (t :: toks)) :
    ∃ (blanks rest : Str) (n : Nat), src = blanks ++ rest ∧ (∀ b ∈ blanks, isBlank b = true) ∧
      t.line = line + countNewlines blanks ∧ TokText t rest n ∧
      Lexes (rest.drop n) (t.line + countNewlines (rest.take n)) toks := by
  generalize hq : t :: toks = q at h
  induction h with
  | nil => cases hq
  | @blank c rest' line' toks' hb _ ih =>
    obtain ⟨bl, rs, n, h1, h2, h3, h4, h5⟩ := ih hq
    refine ⟨c :: bl, rs, n, by simp [h1], ?_, ?_, h4, h5⟩
    · intro b hb'; rcases List.mem_cons.mp hb' with rfl | hb'
      · exact hb
      · exact h2 b hb'
    · rw [h3, countNewlines_cons]; omega
  | @tok t' src' n line' toks' h1 h2 h3 h4 _ =>
    cases hq
    exact ⟨[], src', n, rfl, by simp, by simp [h1, countNewlines_nil], h3, by rw [h1]; exact h4⟩

/-- blanks produce no token; only a newline advances the line counter -/
theorem blank_step (file : Str) (f : Nat) (b : Char) (src : Str) (line : Nat) (acc : List Token)
    (hb : b = ' ' ∨ b = '\t' ∨ b = '\r' ∨ b = '\n') :
    tokenizeLoop file (f+1) (b :: src) line acc = tokenizeLoop file f src (line + if b = '\n' then 1 else 0) acc := by
  rcases hb with rfl | rfl | rfl | rfl <;> simp [tokenizeLoop, consume, simpleTok?, bnDigitVal?] <;> rfl

/-- keyword / identifier classification is the 13-entry table (tied to the source by `SrcFactsAgree.keywords_agree`) -/
theorem classify_word (c : Char) (rest : Str) (line : Nat) (file : Str) (h : isIdentChar c = true) :
    consumeWord c rest line file =
      mkTok (c :: rest) line file ((keyword? ((c :: rest).takeWhile isIdentChar)).getD .ident) ((c :: rest).takeWhile isIdentChar).length := by
  unfold consumeWord
  simp only [h, Bool.not_true, Bool.false_eq_true, if_false]
  cases keyword? ((c :: rest).takeWhile isIdentChar) <;> rfl

/-- a character that starts no token is a syntax error (it used to hang the tokenizer) -/
theorem stray_character_is_error (c : Char) (rest : Str) (line : Nat) (file : Str) (h : isIdentChar c = false) :
    ∃ e, consumeWord c rest line file = .err e ∧ e.cls = .syntax ∧ e.line = line := by
  simp [consumeWord, h, mkErr]

example : isIdentChar '$' = false ∧ isIdentChar '.' = false ∧ isIdentChar '\\' = false ∧ isIdentChar '`' = false := by decide

end C10
end Pakhi
