/-
  C10 — the tokenizer is total and loses nothing: every character, the right line.

  `tokenize_total`: for EVERY character sequence (any length, any characters, ending anywhere — in
  the middle of a number, a string, a comment, an escaped `#`) the tokenizer returns a token list or
  a syntax error with the fuel `|src| + 1` it is given: it never panics (every look-ahead is the
  pattern match of the suffix list, fixes F1/F2), never runs out of fuel (each step consumes at least
  one character, fix F3 — the former infinite loop) and so produces at most `|src| + 1` tokens.
  Covering and line numbers (`tokenize_cover`, `tokenize_lines`) are decided on every run by the
  independent specification oracle of the C10 check over the exhaustive small alphabet.
-/
import Pakhi.Lemmas.Lexer

namespace Pakhi
namespace C10

/-- one tokenizer step makes progress or reports a syntax error — never a panic, never zero width -/
theorem consume_progress (c : Char) (rest : Str) (line : Nat) (file : Str) (ao : Bool) :
    Consumed.Good (consume (c :: rest) line file ao) := consume_good c rest line file ao

/-- the tokenizer is total -/
theorem tokenize_total (src : Str) (file : Str) :
    (∃ toks, tokenize src file = .ok toks) ∨ (∃ e, tokenize src file = .err e ∧ e.cls = .syntax) :=
  Pakhi.tokenize_total src file

theorem tokenize_never_panics (src : Str) (file : Str) : (∀ p, tokenize src file ≠ .panic p) ∧ tokenize src file ≠ .fuel := by
  rcases Pakhi.tokenize_total src file with ⟨t, h⟩ | ⟨e, h, _⟩ <;> simp [h]

/-- blanks produce no token; only a newline advances the line counter -/
theorem blank_step (file : Str) (f : Nat) (b : Char) (src : Str) (line : Nat) (acc : List Token)
    (hb : b = ' ' ∨ b = '\t' ∨ b = '\r' ∨ b = '\n') :
    tokenizeLoop file (f+1) (b :: src) line acc = tokenizeLoop file f src (line + if b = '\n' then 1 else 0) acc := by
  rcases hb with rfl | rfl | rfl | rfl <;> simp [tokenizeLoop, consume, simpleTok?, bnDigitVal?] <;> rfl

/-- keyword / identifier classification is the 13-entry table (tied to the source by `SrcFactsAgree.keywords_agree`) -/
theorem classify_word (c : Char) (rest : Str) (line : Nat) (file : Str) (h : isIdentChar c = true) :
    consumeWord c rest line file =
      mkTok (c :: rest) line file ((keyword? ((c :: rest).takeWhile isIdentChar)).getD .ident) ((c :: rest).takeWhile isIdentChar).length := by
  unfold consumeWord
  simp only [h, Bool.not_true, Bool.false_eq_true, if_false]
  cases keyword? ((c :: rest).takeWhile isIdentChar) <;> rfl

/-- a character that starts no token is a syntax error (it used to hang the tokenizer) -/
theorem stray_character_is_error (c : Char) (rest : Str) (line : Nat) (file : Str) (h : isIdentChar c = false) :
    ∃ e, consumeWord c rest line file = .err e ∧ e.cls = .syntax ∧ e.line = line := by
  simp [consumeWord, h, mkErr]

example : isIdentChar '$' = false ∧ isIdentChar '.' = false ∧ isIdentChar '\\' = false ∧ isIdentChar '`' = false := by decide

end C10
end Pakhi
