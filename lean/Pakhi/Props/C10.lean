import Pakhi.Model.Lexer
