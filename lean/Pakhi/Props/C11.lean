/-
  C11 — layout does not matter: optional blanks, newlines and comments are inert.

  Token-level theorems: a `-` directly followed by a digit is the binary operator whenever the
  previous token ends an operand (`৫-১`, `ক[০]-১`, `(ক)-১`: number, string, identifier, boolean, `)`
  or `]`), and a negative literal otherwise; blanks of every kind produce no token and only a
  newline moves the line counter; a comment is one token that the parser drops at every statement
  start.  **Relayout theorems** (second half of the file): the tokenizer is local — a step depends only on
  the characters it consumes and on whether the next one continues the token (`consume_cut`) — hence at
  every token boundary a blank, or a run of blanks of any kind, can be inserted, removed or exchanged
  without changing any token (`blank_insertion`, `blank_run_insertion`, `blank_run_relayout`); for
  space, tab and CR the token lists are equal outright, so the whole pipeline (print, final state, error
  with its line) is unchanged (`pipeline_blank_insertion`).  **Newlines through the parser and interpreter** (last part of the
  file): both treat source locations as labels (`parse_relabel`, `runLoop_relabel` in `Lemmas/Relabel*.lean`), so two token lists
  that differ in line numbers only end the same way up to reported line numbers (`run_of_tokens_up_to_lines`), and a run of blanks of
  ANY kind can be inserted, removed or exchanged at a token boundary without changing the outcome of the whole pipeline up to
  reported line numbers (`pipeline_blank_run_insertion`, `pipeline_blank_run_relayout`).  Comment insertion between statements is
  decided metamorphically by the C11 check (six layouts per program); `comment_inert` is the one-step fact.
-/
import Pakhi.Lemmas.Lexer
import Pakhi.Lemmas.Relayout
import Pakhi.Model.Parser
import Pakhi.Model.Interp
import Pakhi.Lemmas.RelabelP3

namespace Pakhi
namespace C11

/-- after an operand-ending token `-digit…` lexes as the operator `-` (one character) -/
theorem minus_after_operand (d : Char) (rest : Str) (line : Nat) (file : Str) (hd : isNumeric d = true) :
    consume ('-' :: d :: rest) line file true = mkTok ('-' :: d :: rest) line file .minus 1 := by
  have h1 : d ≠ '>' := by intro h; subst h; simp [isNumeric] at hd
  simp only [consume, consumeMinusOrDigit]
  simp [isNumeric]
  split
  · rename_i heq; simp at heq; exact absurd heq.1 h1
  · rfl

/-- otherwise `-digit…` is a negative literal handled by `consume_num` -/
theorem minus_not_after_operand (d : Char) (rest : Str) (line : Nat) (file : Str) (hd : isNumeric d = true) :
    consume ('-' :: d :: rest) line file false = consumeNumTok ('-' :: d :: rest) line file := by
  simp [consume, consumeMinusOrDigit, nextIsNumeric, hd]

/-- the tokens after which `-` is an operator are exactly: number, string, identifier, boolean, `)`, `]` -/
theorem operand_enders (k : TK) :
    endsOperand k = true ↔ (∃ b, k = .num b) ∨ (∃ s, k = .str s) ∨ k = .ident ∨ (∃ b, k = .bool b) ∨ k = .rparen ∨ k = .rsq := by
  cases k <;> simp [endsOperand]

/-- the operator decision depends on the previous *token*, never on the blanks in between -/
theorem operator_decision_ignores_blanks (t : Token) (acc : List Token) : lastEndsOperand (t :: acc) = endsOperand t.kind := rfl

/-- space, tab, CR and newline produce no token; only the newline advances the line counter -/
theorem blanks_are_inert (file : Str) (f : Nat) (b : Char) (src : Str) (line : Nat) (acc : List Token)
    (hb : b = ' ' ∨ b = '\t' ∨ b = '\r' ∨ b = '\n') :
    tokenizeLoop file (f+1) (b :: src) line acc = tokenizeLoop file f src (line + if b = '\n' then 1 else 0) acc := by
  rcases hb with rfl | rfl | rfl | rfl <;> simp [tokenizeLoop, consume, simpleTok?, bnDigitVal?] <;> rfl

/-- any run of blanks between two tokens is skipped without changing the pending tokens -/
theorem blank_run_inert (file : Str) : ∀ (bs : Str) (f : Nat) (src : Str) (line : Nat) (acc : List Token),
    (∀ b ∈ bs, b = ' ' ∨ b = '\t' ∨ b = '\r' ∨ b = '\n') →
    tokenizeLoop file (f + bs.length) (bs ++ src) line acc = tokenizeLoop file f src (line + countNewlines bs) acc
  | [], f, src, line, acc, _ => by simp [countNewlines]
  | b :: bs, f, src, line, acc, hb => by
      have h1 := blanks_are_inert file (f + bs.length) b (bs ++ src) line acc (hb b (by simp))
      have h2 := blank_run_inert file bs f src (line + if b = '\n' then 1 else 0) acc (fun x hx => hb x (by simp [hx]))
      have e : f + (b :: bs).length = f + bs.length + 1 := by simp; omega
      rw [e, List.cons_append, h1, h2]
      congr 1
      by_cases hn : b = '\n'
      · subst hn; simp [countNewlines, List.filter]; omega
      · have : (b == '\n') = false := by simpa using hn
        simp [countNewlines, hn, List.filter, this]

/-- a comment block at a statement start is dropped by the parser: the statement that follows is parsed -/
theorem comment_inert (ctx : PCtx) (f : Nat) (t : Token) (rest : List Token) (prev : Token) (rel : List (Str × List Str))
    (ht : t.kind = .comment) :
    pStatement ctx (f+1) { rest := t :: rest, prev := prev, rel := rel } =
      pStatement ctx f { rest := rest, prev := t, rel := rel } := by
  simp [pStatement, ht, PS.adv]

example : isNumeric '১' = true := by decide

/-- the end of `s1` is a token boundary of the source `s1 ++ s2`: the tokenizer, started at line 1 with no
    previous token, takes whole steps that end exactly at the end of `s1` (so no string, comment, number, word or
    two-character operator straddles the position) -/
def Boundary (file s1 s2 : Str) : Prop := Cuts file s2 s1 1 false

/-- **inserting a blank at a token boundary changes no token**: kinds, lexemes, files and the outcome (token list or
    lexical error) are the same; only line numbers may move (they do when the blank is a newline).  Read from right
    to left it is the removal clause: a blank may be removed wherever the position is still a boundary without it
    (the two neighbours do not fuse) -/
theorem blank_insertion (file s1 s2 : Str) (b : Char) (hb : isBlank b = true) (hcut : Boundary file s1 s2) :
    stripRes (tokenize (s1 ++ b :: s2) file) = stripRes (tokenize (s1 ++ s2) file) :=
  relayout_at_boundary file s1 s2 (b :: s2) (Or.inr ⟨b, s2, rfl, hb⟩) hcut
    (fun fuel fuel' line acc h1 h2 => blank_run_tail file [b] s2 (by simpa using hb) fuel fuel' line acc h1 h2)

/-- the same for a run of blanks of any length and any mixture of space, tab, CR and newline -/
theorem blank_run_insertion (file s1 s2 bs : Str) (hbs : ∀ b ∈ bs, isBlank b = true) (hcut : Boundary file s1 s2) :
    stripRes (tokenize (s1 ++ (bs ++ s2)) file) = stripRes (tokenize (s1 ++ s2) file) := by
  cases bs with
  | nil => rfl
  | cons b bs =>
    exact relayout_at_boundary file s1 s2 (b :: bs ++ s2) (Or.inr ⟨b, bs ++ s2, rfl, hbs b (by simp)⟩) hcut
      (fun fuel fuel' line acc h1 h2 => blank_run_tail file (b :: bs) s2 hbs fuel fuel' line acc h1 h2)

/-- **amount and kind of whitespace between two tokens do not matter**: a non-empty run of blanks that starts at a
    token boundary can be replaced by any other non-empty run (this holds also where the neighbours would fuse
    without a separator, e.g. two words) -/
theorem blank_run_relayout (file s1 s2 bs bs' : Str) (hbs : ∀ b ∈ bs, isBlank b = true) (hbs' : ∀ b ∈ bs', isBlank b = true)
    (hne' : bs' ≠ []) (hcut : Boundary file s1 (bs ++ s2)) :
    stripRes (tokenize (s1 ++ (bs' ++ s2)) file) = stripRes (tokenize (s1 ++ (bs ++ s2)) file) := by
  obtain ⟨b', tl', rfl⟩ : ∃ b' tl', bs' = b' :: tl' := by cases bs' with | nil => exact absurd rfl hne' | cons b t => exact ⟨b, t, rfl⟩
  refine relayout_at_boundary file s1 (bs ++ s2) (b' :: tl' ++ s2) (Or.inr ⟨b', tl' ++ s2, rfl, hbs' b' (by simp)⟩) hcut ?_
  intro fuel fuel' line acc h1 h2
  have a := blank_run_tail file (b' :: tl') s2 hbs' (s2.length + 1) fuel' line acc (by omega) h2
  have b := blank_run_tail file bs s2 hbs (s2.length + 1) fuel line acc (by omega) h1
  rw [a, b]

/-- a boundary stays a boundary when the text after it is replaced by text starting with a blank -/
theorem boundary_after_insertion (file s1 s2 : Str) (b : Char) (hb : isBlank b = true) (hcut : Boundary file s1 s2) :
    Boundary file s1 (b :: s2) :=
  cuts_sameStop file s2 (b :: s2) (Or.inr ⟨b, s2, rfl, hb⟩) s1 1 false hcut

/-- for a blank that is not a newline nothing at all changes: the two token lists are *equal*, line numbers included -/
theorem blank_insertion_exact (file s1 s2 : Str) (b : Char) (hb : b = ' ' ∨ b = '\t' ∨ b = '\r') (hcut : Boundary file s1 s2) :
    tokenize (s1 ++ b :: s2) file = tokenize (s1 ++ s2) file := by
  have hbl : isBlank b = true := by rcases hb with rfl | rfl | rfl <;> decide
  have hnl : b ≠ '\n' := by rcases hb with rfl | rfl | rfl <;> decide
  refine loop_cut file s2 (b :: s2) (Or.inr ⟨b, s2, rfl, hbl⟩) (fun a c => a = c) ?_ s1 1 false hcut _ _ [] rfl (by omega) (by omega)
  intro fuel fuel' line acc h1 h2
  obtain ⟨g, rfl⟩ : ∃ g, fuel' = g + 1 := ⟨fuel' - 1, by simp at h2; omega⟩
  rw [blank_step file g b s2 line acc hbl]
  simp only [hnl, if_false, Nat.add_zero]
  exact tokenizeLoop_fuel file fuel g s2 line acc h1 (by simp at h2; omega)

/-- the whole pipeline of the model: tokenize, parse (with module loading), run -/
def pipeline (ctx : PCtx) (pf : Nat) (mode : GcMode) (fuel : Nat) (w : World) (src : Str) : Res St :=
  match tokenize src ctx.mainPath with
  | .ok toks =>
    match parse ctx pf toks with
    | .ok prog => runLoop prog mode fuel 0 prog (St.init w)
    | .err e => .err e
    | .panic s => .panic s
    | .fuel => .fuel
  | .err e => .err e
  | .panic s => .panic s
  | .fuel => .fuel

/-- **whole-program corollary**: inserting (or removing) a space, tab or CR at a token boundary changes neither the
    printed text, nor the final state, nor the error (message, file *and* line) — for every program, every world,
    every collection schedule -/
theorem pipeline_blank_insertion (ctx : PCtx) (pf : Nat) (mode : GcMode) (fuel : Nat) (w : World) (s1 s2 : Str) (b : Char)
    (hb : b = ' ' ∨ b = '\t' ∨ b = '\r') (hcut : Boundary ctx.mainPath s1 s2) :
    pipeline ctx pf mode fuel w (s1 ++ b :: s2) = pipeline ctx pf mode fuel w (s1 ++ s2) := by
  unfold pipeline
  rw [blank_insertion_exact ctx.mainPath s1 s2 b hb hcut]

/-- non-vacuity: in `৫-১` the position after `৫` is a boundary (so `৫ -১`, `৫\t-১`, … have the same tokens);
    and so is the position after `৫-` -/
example : Boundary [] ['৫'] ['-', '১'] := .step (t? := some ⟨.num _, ['৫'], 1, []⟩) (n := 1) (l := 0) (by rfl) (by decide) (.done _ _)

example : Boundary [] ['৫', '-'] ['১'] :=
  .step (t? := some ⟨.num _, ['৫'], 1, []⟩) (n := 1) (l := 0) (by rfl) (by decide)
    (.step (t? := some ⟨.minus, ['-'], 1, []⟩) (n := 1) (l := 0) (by rfl) (by decide) (.done _ _))


/-- **a run depends on line numbers only through the locations it reports**: two token lists that differ in line numbers only give
    the same outcome up to reported line numbers — through the parser (module loading included) and the interpreter, for every world,
    collection schedule and fuel -/
theorem run_of_tokens_up_to_lines (ctx : PCtx) (pf : Nat) (mode : GcMode) (fuel : Nat) (w : World) (ts' ts : List Token)
    (h : ts'.map noLine = ts.map noLine) :
    noLineRes (match parse ctx pf ts' with
      | .ok prog => runLoop prog mode fuel 0 prog (St.init w)
      | .err e => .err e | .panic s => .panic s | .fuel => .fuel) =
    noLineRes (match parse ctx pf ts with
      | .ok prog => runLoop prog mode fuel 0 prog (St.init w)
      | .err e => .err e | .panic s => .panic s | .fuel => .fuel) := by
  have hp' := parse_relabel dropLine dropLine_idem ctx pf ts'
  have hp := parse_relabel dropLine dropLine_idem ctx pf ts
  have hts : ts'.map (relTok dropLine) = ts.map (relTok dropLine) := h
  rw [hts] at hp'
  have hpp : ResEq dropLine (relL dropLine) (parse ctx pf ts') (parse ctx pf ts) := hp'.symm.trans hp
  revert hpp
  generalize parse ctx pf ts' = p'
  generalize parse ctx pf ts = p
  intro hpp
  cases p' <;> cases p <;> simp only [ResEq, Res.rel_ok, Res.rel_err, Res.rel_panic, Res.rel_fuel] at hpp ⊢ <;>
    first
      | rfl
      | (cases hpp; done)
      | skip
  · rename_i prog' prog
    injection hpp with hpp
    have r' := runLoop_relabel dropLine prog' mode fuel 0 prog' (St.init w)
    have r := runLoop_relabel dropLine prog mode fuel 0 prog (St.init w)
    rw [← noLineRes_rel (runLoop prog' mode fuel 0 prog' (St.init w)), ← noLineRes_rel (runLoop prog mode fuel 0 prog (St.init w)),
      ← r', ← r, hpp]
  · rename_i e' e
    injection hpp with hpp
    have h1 := noLineRes_rel (.err e')
    have h2 := noLineRes_rel (.err e)
    simp only [Res.rel_err] at h1 h2
    rw [← h1, ← h2, hpp]
  · injection hpp with hpp; subst hpp; rfl

/-- the same from the source text: if two sources have the same tokens up to line numbers, the whole pipeline ends the same way up to
    reported line numbers -/
theorem pipeline_of_same_tokens (ctx : PCtx) (pf : Nat) (mode : GcMode) (fuel : Nat) (w : World) (a b : Str)
    (h : stripRes (tokenize a ctx.mainPath) = stripRes (tokenize b ctx.mainPath)) :
    noLineRes (pipeline ctx pf mode fuel w a) = noLineRes (pipeline ctx pf mode fuel w b) := by
  unfold pipeline
  revert h
  generalize tokenize a ctx.mainPath = ta
  generalize tokenize b ctx.mainPath = tb
  intro h
  cases ta <;> cases tb <;> simp only [stripRes] at h ⊢ <;>
    first
      | rfl
      | (cases h; done)
      | skip
  · rename_i ts' ts
    injection h with h
    exact run_of_tokens_up_to_lines ctx pf mode fuel w ts' ts h
  · rename_i e' e
    injection h with h
    simp only [noLineRes, h]
  · injection h with h; subst h; rfl

/-- **whitespace of any kind, newlines included, is inert for the whole pipeline**: inserting (or removing) a run of spaces, tabs, CRs
    and newlines at a token boundary changes neither the printed text, nor the final variables and heap, nor the kind of ending, nor an
    error's class, message and file — only reported line numbers may move -/
theorem pipeline_blank_run_insertion (ctx : PCtx) (pf : Nat) (mode : GcMode) (fuel : Nat) (w : World) (s1 s2 bs : Str)
    (hbs : ∀ b ∈ bs, isBlank b = true) (hcut : Boundary ctx.mainPath s1 s2) :
    noLineRes (pipeline ctx pf mode fuel w (s1 ++ (bs ++ s2))) = noLineRes (pipeline ctx pf mode fuel w (s1 ++ s2)) :=
  pipeline_of_same_tokens ctx pf mode fuel w _ _ (blank_run_insertion ctx.mainPath s1 s2 bs hbs hcut)

/-- … and a non-empty run of blanks may be exchanged for any other non-empty run -/
theorem pipeline_blank_run_relayout (ctx : PCtx) (pf : Nat) (mode : GcMode) (fuel : Nat) (w : World) (s1 s2 bs bs' : Str)
    (hbs : ∀ b ∈ bs, isBlank b = true) (hbs' : ∀ b ∈ bs', isBlank b = true) (hne' : bs' ≠ [])
    (hcut : Boundary ctx.mainPath s1 (bs ++ s2)) :
    noLineRes (pipeline ctx pf mode fuel w (s1 ++ (bs' ++ s2))) = noLineRes (pipeline ctx pf mode fuel w (s1 ++ (bs ++ s2))) :=
  pipeline_of_same_tokens ctx pf mode fuel w _ _ (blank_run_relayout ctx.mainPath s1 s2 bs bs' hbs hbs' hne' hcut)

/-- non-vacuity: `৫-১` with a newline (and a tab) put after `৫` — the premises hold, so the two pipelines agree up to line numbers -/
example (cwd : Str) (rf : Str → Option Str) (pf fuel : Nat) (mode : GcMode) (w : World) :
    noLineRes (pipeline ⟨[], cwd, rf⟩ pf mode fuel w (['৫'] ++ (['\n', '\t'] ++ ['-', '১']))) =
      noLineRes (pipeline ⟨[], cwd, rf⟩ pf mode fuel w (['৫'] ++ ['-', '১'])) :=
  pipeline_blank_run_insertion ⟨[], cwd, rf⟩ pf mode fuel w ['৫'] ['-', '১'] ['\n', '\t'] (by decide)
    (.step (t? := some ⟨.num _, ['৫'], 1, []⟩) (n := 1) (l := 0) (by rfl) (by decide) (.done _ _))

end C11
end Pakhi
