/-
  C11 — layout does not matter: optional blanks, newlines and comments are inert.

  Token-level theorems: a `-` directly followed by a digit is the binary operator whenever the
  previous token ends an operand (`৫-১`, `ক[০]-১`, `(ক)-১`: number, string, identifier, boolean, `)`
  or `]`), and a negative literal otherwise; blanks of every kind produce no token and only a
  newline moves the line counter; a comment is one token that the parser drops at every statement
  start.  That two layouts of one token sequence print the same is decided metamorphically by the
  C11 check (six layouts per program); the general `tokenize_unlex` theorem is not closed yet.
-/
import Pakhi.Lemmas.Lexer
import Pakhi.Model.Parser

namespace Pakhi
namespace C11

/-- after an operand-ending token `-digit…` lexes as the operator `-` (one character) -/
theorem minus_after_operand (d : Char) (rest : Str) (line : Nat) (file : Str) (hd : isNumeric d = true) :
    consume ('-' :: d :: rest) line file true = mkTok ('-' :: d :: rest) line file .minus 1 := by
  have h1 : d ≠ '>' := by intro h; subst h; simp [isNumeric] at hd
  simp only [consume, consumeMinusOrDigit]
  simp [isNumeric]
  split
  · rename_i heq; simp at heq; exact absurd heq.1 h1
  · rfl

/-- otherwise `-digit…` is a negative literal handled by `consume_num` -/
theorem minus_not_after_operand (d : Char) (rest : Str) (line : Nat) (file : Str) (hd : isNumeric d = true) :
    consume ('-' :: d :: rest) line file false = consumeNumTok ('-' :: d :: rest) line file := by
  simp [consume, consumeMinusOrDigit, nextIsNumeric, hd]

/-- the tokens after which `-` is an operator are exactly: number, string, identifier, boolean, `)`, `]` -/
theorem operand_enders (k : TK) :
    endsOperand k = true ↔ (∃ b, k = .num b) ∨ (∃ s, k = .str s) ∨ k = .ident ∨ (∃ b, k = .bool b) ∨ k = .rparen ∨ k = .rsq := by
  cases k <;> simp [endsOperand]

/-- the operator decision depends on the previous *token*, never on the blanks in between -/
theorem operator_decision_ignores_blanks (t : Token) (acc : List Token) : lastEndsOperand (t :: acc) = endsOperand t.kind := rfl

/-- space, tab, CR and newline produce no token; only the newline advances the line counter -/
theorem blanks_are_inert (file : Str) (f : Nat) (b : Char) (src : Str) (line : Nat) (acc : List Token)
    (hb : b = ' ' ∨ b = '\t' ∨ b = '\r' ∨ b = '\n') :
    tokenizeLoop file (f+1) (b :: src) line acc = tokenizeLoop file f src (line + if b = '\n' then 1 else 0) acc := by
  rcases hb with rfl | rfl | rfl | rfl <;> simp [tokenizeLoop, consume, simpleTok?, bnDigitVal?] <;> rfl

/-- any run of blanks between two tokens is skipped without changing the pending tokens -/
theorem blank_run_inert (file : Str) : ∀ (bs : Str) (f : Nat) (src : Str) (line : Nat) (acc : List Token),
    (∀ b ∈ bs, b = ' ' ∨ b = '\t' ∨ b = '\r' ∨ b = '\n') →
    tokenizeLoop file (f + bs.length) (bs ++ src) line acc = tokenizeLoop file f src (line + countNewlines bs) acc
  | [], f, src, line, acc, _ => by simp [countNewlines]
  | b :: bs, f, src, line, acc, hb => by
      have h1 := blanks_are_inert file (f + bs.length) b (bs ++ src) line acc (hb b (by simp))
      have h2 := blank_run_inert file bs f src (line + if b = '\n' then 1 else 0) acc (fun x hx => hb x (by simp [hx]))
      have e : f + (b :: bs).length = f + bs.length + 1 := by simp; omega
      rw [e, List.cons_append, h1, h2]
      congr 1
      by_cases hn : b = '\n'
      · subst hn; simp [countNewlines, List.filter]; omega
      · have : (b == '\n') = false := by simpa using hn
        simp [countNewlines, hn, List.filter, this]

/-- a comment block at a statement start is dropped by the parser: the statement that follows is parsed -/
theorem comment_inert (ctx : PCtx) (f : Nat) (t : Token) (rest : List Token) (prev : Token) (rel : List (Str × List Str))
    (ht : t.kind = .comment) :
    pStatement ctx (f+1) { rest := t :: rest, prev := prev, rel := rel } =
      pStatement ctx f { rest := rest, prev := t, rel := rel } := by
  simp [pStatement, ht, PS.adv]

example : isNumeric '১' = true := by decide

end C11
end Pakhi
