/-
  C12 — the parser is total: any token stream yields an AST or an error value.

  `parse_never_panics`: for EVERY token list (not only tokenizer outputs: truncated, with tokens
  deleted, duplicated, swapped or inserted), every file system the module loader may read from and
  every fuel, `parse` returns a statement list, an error value or runs out of the model's fuel — it
  never panics.  Every look-ahead is the saturating accessor of fix F7 (in the model: the head of
  the remaining suffix, end marker when empty), the `todo!()` of fix F8 is gone, and the loader's
  path arithmetic (fix F10) is total.  The proof covers all eleven mutually recursive expression
  functions, the nine statement parsers, the import-path scanner, `_ডাইরেক্টরি` expansion, renaming
  and splicing.  Termination: `expression_is_total` — the eleven expression functions always terminate within
  `exprFuel` (every successful operand parser consumes a token, `expr_progress`; the potential 16·tokens + level
  covers every call, `expr_fuel`); `parse_is_total_single_file` — the statement loop terminates on every import-free
  token list within `2·tokens + 2` (each statement consumes a token; comment blocks are counted).  That the statement loop's fuel suffices for whole programs with imports (module
  tokens are spliced into the stream) is decided by the C12 / C15 correspondence runs (the Rust parser has no fuel: a
  `fuel` answer of the model against an answer of the implementation is a disagreement); the native stack is
  KNOWN-FINDING C12-native-stack.
-/
import Pakhi.Lemmas.ParseNP
import Pakhi.Lemmas.ParseFuel
import Pakhi.Lemmas.ParseTerm

namespace Pakhi
namespace C12

/-- none of the eleven mutually recursive expression-parsing functions ever panics -/
theorem expr_parser_never_panics (f : Nat) :
    (∀ k s p, pLevel f k s ≠ .panic p) ∧ (∀ k e s p, pLevelLoop f k e s ≠ .panic p) ∧
    (∀ s p, pUnary f s ≠ .panic p) ∧ (∀ s p, pCall f s ≠ .panic p) ∧ (∀ e s p, pCallLoop f e s ≠ .panic p) ∧
    (∀ e s p, pFinishCall f e s ≠ .panic p) ∧ (∀ s p, pArgs f s ≠ .panic p) ∧ (∀ s p, pPrimary f s ≠ .panic p) ∧
    (∀ e s p, pIndexLoop f e s ≠ .panic p) ∧ (∀ s p, pListElems f s ≠ .panic p) ∧ (∀ s p, pRecordElems f s ≠ .panic p) :=
  expr_no_panic f

/-- one statement (module imports included) never panics -/
theorem statement_never_panics (ctx : PCtx) (hmain : (pathParent ctx.mainPath).isSome = true) (f : Nat) (s : PS) (p : String) :
    pStatement ctx f s ≠ .panic p := pStatement_np ctx hmain f s p

/-- the whole parser never panics, for every token list and every file system -/
theorem parse_never_panics (ctx : PCtx) (fuel : Nat) (toks : List Token) (hmain : (pathParent ctx.mainPath).isSome = true)
    (hname : (pathFileName ctx.mainPath).isSome = true) (hlen : 2 ≤ ctx.mainPath.length) (p : String) :
    parse ctx fuel toks ≠ .panic p := parse_np ctx fuel toks hmain hname hlen p

/-- hence the outcome is a statement list, an error value, or the model's fuel ran out -/
theorem parse_outcome (ctx : PCtx) (fuel : Nat) (toks : List Token) (hmain : (pathParent ctx.mainPath).isSome = true)
    (hname : (pathFileName ctx.mainPath).isSome = true) (hlen : 2 ≤ ctx.mainPath.length) :
    (∃ prog, parse ctx fuel toks = .ok prog) ∨ (∃ e, parse ctx fuel toks = .err e) ∨ parse ctx fuel toks = .fuel := by
  cases h : parse ctx fuel toks with
  | ok prog => exact Or.inl ⟨prog, rfl⟩
  | err e => exact Or.inr (Or.inl ⟨e, rfl⟩)
  | panic p => exact absurd h (parse_np ctx fuel toks hmain hname hlen p)
  | fuel => exact Or.inr (Or.inr rfl)

/-- the look-ahead accessors are total: past the end they see the end marker -/
theorem peek_past_end (s : PS) (h : s.rest = []) : s.peek = .eot ∧ s.peek1 = .eot ∧ s.adv = s := by
  simp [PS.peek, PS.peek1, PS.adv, h]

/-- non-vacuity: a main path such as the harness uses satisfies the hypotheses -/
example : (pathParent "/r/main.pakhi".toList).isSome = true ∧ (pathFileName "/r/main.pakhi".toList).isSome = true := by decide

/-- **`expression()` is total**: on every token stream it returns an expression with the rest of the stream, or a Pakhi
    error — it never panics and never exhausts the model's fuel (16 per remaining token + 32), i.e. it terminates -/
theorem expression_is_total (s : PS) : (∃ e s', pExpr s = .ok (e, s')) ∨ (∃ err, pExpr s = .err err) := by
  cases h : pExpr s with
  | ok x => exact Or.inl ⟨x.1, x.2, rfl⟩
  | err e => exact Or.inr ⟨e, rfl⟩
  | panic p => exact ((expr_no_panic _).1 0 s p h).elim
  | fuel => exact (pExpr_never_out_of_fuel s h).elim

/-- and a successful `expression()` consumes at least one token -/
theorem expression_consumes (s : PS) (e : Expr) (s' : PS) (h : pExpr s = .ok (e, s')) : s'.rest.length + 1 ≤ s.rest.length :=
  (expr_progress _).1 0 s e s' h

/-- **the parser is total on single-file programs**: for every token list without `মডিউল` — not only tokenizer outputs —
    `parse` with fuel `2·tokens + 2` returns a statement list or an error value: no panic, no fuel exhaustion -/
theorem parse_is_total_single_file (ctx : PCtx) (fuel : Nat) (toks : List Token) (hmain : (pathParent ctx.mainPath).isSome = true)
    (hname : (pathFileName ctx.mainPath).isSome = true) (hlen : 2 ≤ ctx.mainPath.length)
    (hni : ∀ t ∈ toks, t.kind ≠ .import) (hf : 2 * toks.length + 2 ≤ fuel) :
    (∃ prog, parse ctx fuel toks = .ok prog) ∨ (∃ e, parse ctx fuel toks = .err e) := by
  cases h : parse ctx fuel toks with
  | ok prog => exact Or.inl ⟨prog, rfl⟩
  | err e => exact Or.inr ⟨e, rfl⟩
  | panic p => exact (parse_np ctx fuel toks hmain hname hlen p h).elim
  | fuel => exact (parse_terminates_without_imports ctx fuel toks hni hf h).elim

end C12
end Pakhi
