/-
  C13 — runtime faults stop the program with a located Pakhi error, never a panic.

  Every listed fault kind is an `.err` value of the evaluator, carrying the line and file of the
  statement (or operand) that the Rust code reports and the output printed so far; the run loop
  returns the first error unchanged, so nothing after the failing statement runs and what was
  printed before is kept; `_এরর(m)` reports exactly `m`.  The faults themselves are proved where they
  arise: operand type mismatches in C01 (`*_type_error`), undeclared names in C04, non-boolean
  conditions in C02, list positions in C16, calls in C05, printing nil / functions in C18.  Here:
  index faults, built-in faults, the `_এরর` built-in, malformed control statements, first-error-stops.

  "Never a panic" is proved for whole runs (`run_never_panics`, `parsed_program_never_panics`): the
  state invariant `StOK` (every `.list i` / `.record i` value stored anywhere points into its arena, the
  free stacks hold arena indexes, the scope stack is never empty, loop records point into the program;
  `Lemmas/Inv.lean`) is preserved by every one of the ten mutually recursive functions of the evaluator,
  by all 17 built-ins, by assignment through index paths, by printing and by the collector
  (`Lemmas/EvalInv.lean`, `Lemmas/GcInv.lean`), and under it none of the model's `.panic` outcomes
  (one per `unwrap()` / slice index / `[]` of `interpreter.rs`, `built_ins.rs`, `mark_sweep.rs`) is
  reachable — for every program the parser can return (`parse_wf`), every world, every collection
  schedule and every fuel.  What this does not cover: Rust panics that have no `.panic` site in the
  model (arithmetic overflow in `usize` computations, stack exhaustion — see C12's known finding);
  those are only observed by the harness, which reports every caught panic.
-/
import Pakhi.Lemmas.Control
import Pakhi.Lemmas.EvalInv
import Pakhi.Lemmas.ParseWF
import Pakhi.Lemmas.ParseNP
import Pakhi.Lemmas.OutMono
import Pakhi.Lemmas.Labels

namespace Pakhi
namespace C13

/-- list index out of range (too large, negative, NaN) and a missing record key are runtime errors located at
    the index expression; a wrongly typed index is a type / runtime error — none of them panics -/
theorem index_faults (m : Meta) (h : Heap) (a : Nat) :
    (∀ l n, h.lists[a]? = some l → listPosition n l.length = none →
        ∃ e, indexVal m (.list a) (.num n) h = .err e ∧ e.cls = .runtime ∧ e.line = m.line ∧ e.file = m.file) ∧
    (∀ r k, h.records[a]? = some r → assocGet r k = none →
        ∃ e, indexVal m (.record a) (.str k) h = .err e ∧ e.cls = .runtime ∧ e.line = m.line ∧ e.file = m.file) ∧
    (∀ v, (∀ n, v ≠ .num n) → ∃ e, indexVal m (.list a) v h = .err e ∧ e.line = m.line) ∧
    (∀ v, (∀ k, v ≠ .str k) → ∃ e, indexVal m (.record a) v h = .err e ∧ e.line = m.line) := by
  refine ⟨?_, ?_, ?_, ?_⟩
  · intro l n hl hp; simp [indexVal, hl, hp, metaErr, mkErr]
  · intro r k hr hk; simp [indexVal, hr, hk, metaErr, mkErr]
  · intro v hv; cases v <;> first | exact absurd rfl (hv _) | simp [indexVal, metaErr, mkErr]
  · intro v hv; cases v <;> first | exact absurd rfl (hv _) | simp [indexVal, metaErr, mkErr]

/-- indexing something that is no container is an error, never a panic -/
theorem index_non_container (m : Meta) (c i : Val) (h : Heap) (hc : (∀ a, c ≠ .list a) ∧ (∀ a, c ≠ .record a)) :
    ∃ e, indexVal m c i h = .err e ∧ e.line = m.line := by
  cases c <;> cases i <;> first | exact absurd rfl (hc.1 _) | exact absurd rfl (hc.2 _) | simp [indexVal, metaErr, mkErr]

/-- indexed assignment: out of range, missing key on the way, wrong index kind, not a container — located
    errors at the statement, the heap is not changed (no new heap is produced) -/
theorem assign_faults (st : Stmt) (rest : List Stmt) (v : Val) (h : Heap) (a : Nat) :
    (∀ l n more, h.lists[a]? = some l → listPosition n l.length = none →
        ∃ e, assignPath (st :: rest) (.list a) (.pos n :: more) v h = .err e ∧ e.cls = .runtime ∧ e.line = st.meta.line) ∧
    (∀ r k ix more, h.records[a]? = some r → assocGet r k = none →
        ∃ e, assignPath (st :: rest) (.record a) (.key k :: ix :: more) v h = .err e ∧ e.cls = .runtime ∧ e.line = st.meta.line) ∧
    (∀ l k more, h.lists[a]? = some l → ∃ e, assignPath (st :: rest) (.list a) (.key k :: more) v h = .err e ∧ e.line = st.meta.line) ∧
    (∀ r n more, h.records[a]? = some r → ∃ e, assignPath (st :: rest) (.record a) (.pos n :: more) v h = .err e ∧ e.line = st.meta.line) := by
  refine ⟨?_, ?_, ?_, ?_⟩
  · intro l n more hl hp; simp [assignPath, hl, hp, stmtErr, mkErr]
  · intro r k ix more hr hk; simp [assignPath, hr, hk, stmtErr, mkErr]
  · intro l k more hl; simp [assignPath, stmtErr, mkErr]
  · intro r n more hr; simp [assignPath, stmtErr, mkErr]

/-- `_এরর(m)` stops the program with exactly the message `m`, located at the current statement, keeping the output -/
theorem error_builtin_exact (prog : List Stmt) (f : Nat) (st : Stmt) (rest : List Stmt) (tok : Token) (m0 : Meta) (args : Exprs)
    (s s1 : St) (msg : Str) (ht : tok.lexeme = W.fnError) (ha : evalList prog f (st :: rest) args s = .ok ([.str msg], s1)) :
    evalCall prog (f+1) (st :: rest) (.var tok m0) args s =
      .err { cls := .runtime, line := st.meta.line, file := st.meta.file, msg := msg, out := s1.out } := by
  have hb : isBuiltin W.fnError = true := by decide
  simp [evalCall, stripGroups, ht, hb, ha, curErr]

/-- every failure of a built-in (wrong argument count or type, invalid position, file-system failure, text that
    is no number) is a runtime error located at the current statement, with the output so far -/
theorem builtin_fault_located (prog : List Stmt) (f : Nat) (st : Stmt) (rest : List Stmt) (tok : Token) (m0 : Meta) (args : Exprs)
    (s s1 : St) (vs : List Val) (tag : Str) (hb : isBuiltin tok.lexeme = true) (hne : tok.lexeme ≠ W.fnError)
    (ha : evalList prog f (st :: rest) args s = .ok (vs, s1)) (hf : callBuiltin tok.lexeme vs s1 = .inr tag)
    (hp : tag ≠ panicTag) :
    evalCall prog (f+1) (st :: rest) (.var tok m0) args s =
      .err { cls := .runtime, line := st.meta.line, file := st.meta.file, msg := tag, out := s1.out } := by
  have h1 : (tok.lexeme == W.fnError) = false := by simpa using hne
  have h2 : (tag == panicTag) = false := by simpa using hp
  simp [evalCall, stripGroups, hb, ha, h1, hf, hp, curErr]

/-- the run loop returns the first error unchanged: nothing after the failing statement runs -/
theorem first_error_stops (prog : List Stmt) (g : GcMode) (f k : Nat) (st : Stmt) (rest : List Stmt) (s : St) (e : PErr)
    (hst : ∀ m, st ≠ .eos m) (hx : exec prog f (st :: rest) s = .err e) :
    runLoop prog g (f+1) k (st :: rest) s = .err e := by
  cases st <;> simp_all [runLoop]

/-- a normally ending program stops at the end marker -/
theorem run_ends_at_eos (prog : List Stmt) (g : GcMode) (f k : Nat) (m : Meta) (rest : List Stmt) (s : St) :
    runLoop prog g (f+1) k (.eos m :: rest) s = .ok s ∧ runLoop prog g (f+1) k [] s = .ok s := by
  simp [runLoop]

/-- malformed control statements are located runtime errors, not panics (they used to be an assertion failure,
    two usize underflows and a popped root scope) -/
theorem malformed_control_is_error (prog : List Stmt) (f : Nat) (m : Meta) (rest : List Stmt) (s : St) :
    (s.flags = [] → ∃ e, exec prog (f+1) (.else m :: rest) s = .err e ∧ e.cls = .runtime ∧ e.line = m.line) ∧
    (s.loops = [] → ∃ e, exec prog (f+1) (.cont m :: rest) s = .err e ∧ e.cls = .runtime ∧ e.line = m.line) ∧
    (s.scopes.length ≤ 1 → ∃ e, exec prog (f+1) (.blockEnd m :: rest) s = .err e ∧ e.cls = .runtime ∧ e.line = m.line) ∧
    (∀ x, ∃ e, exec prog (f+1) (.ret x m :: rest) s = .err e ∧ e.cls = .runtime ∧ e.line = m.line) := by
  refine ⟨?_, ?_, ?_, ?_⟩
  · intro h; simp [exec, h, stmtErr, mkErr, Res.tagOut, Stmt.meta]
  · intro h; simp [exec, h, stmtErr, mkErr, Res.tagOut, Stmt.meta]
  · intro h; simp [exec, h, stmtErr, mkErr, Res.tagOut, Stmt.meta]
  · intro x; simp [exec, stmtErr, mkErr, Res.tagOut, Stmt.meta]

/-- the pure operator helpers never panic on scalars -/
theorem scalar_ops_never_panic (op : TK) (m : Meta) (l r : Val) (p : String) :
    mulDiv op m l r ≠ .panic p ∧ compare op m l r ≠ .panic p ∧ equality op m l r ≠ .panic p ∧
    andOr true m l r ≠ .panic p ∧ andOr false m l r ≠ .panic p ∧ unaryOp op m l ≠ .panic p := by
  refine ⟨?_, ?_, ?_, ?_, ?_, ?_⟩
  · unfold mulDiv; repeat' split
    all_goals simp [metaErr, mkErr]
  · unfold compare; repeat' split
    all_goals simp [metaErr, mkErr]
  · unfold equality; repeat' split
    all_goals simp [metaErr, mkErr]
  · unfold andOr; repeat' split
    all_goals simp [metaErr, mkErr]
  · unfold andOr; repeat' split
    all_goals simp [metaErr, mkErr]
  · unfold unaryOp; repeat' split
    all_goals simp [metaErr, mkErr]

/-- `+` panics only if an operand points outside the list arena (excluded by the `InBounds` invariant) -/
theorem addSub_panics_only_out_of_bounds (op : TK) (m : Meta) (l r : Val) (h : Heap) (p : String)
    (hl : ∀ i, l = .list i → i < h.lists.length) (hr : ∀ i, r = .list i → i < h.lists.length) :
    addSub op m l r h ≠ .panic p := by
  unfold addSub
  repeat' split
  all_goals (try simp [metaErr, mkErr])
  all_goals (rename_i i j hx _ _; exfalso
             have h1 := hl i rfl; have h2 := hr j rfl
             cases ha : h.lists[i]? <;> cases hb : h.lists[j]? <;> simp_all
             all_goals (first | exact absurd (List.getElem?_eq_none_iff.mp ha) (by omega) | exact absurd (List.getElem?_eq_none_iff.mp hb) (by omega)))

/-- **no panic in any run of a well-formed statement list**, for every collection schedule `g`, world `w`,
    fuel `f` (and step counter `k`): the run is a value, a Pakhi error or out of fuel -/
theorem run_never_panics (prog : List Stmt) (hp : progWF prog = true) (g : GcMode) (f k : Nat) (w : World) (p : String) :
    runLoop prog g f k prog (St.init w) ≠ .panic p :=
  Pakhi.run_never_panics prog hp g f k w p

/-- the hypothesis of `run_never_panics` holds for everything the parser returns, so:
    **tokens → parse → run never panics** (the parser part is C12's `parse_never_panics`) -/
theorem parsed_program_never_panics (ctx : PCtx) (pf : Nat) (toks : List Token) (prog : List Stmt)
    (h : parse ctx pf toks = .ok prog) (g : GcMode) (f k : Nat) (w : World) (p : String) :
    runLoop prog g f k prog (St.init w) ≠ .panic p :=
  Pakhi.run_never_panics prog (parse_wf ctx pf toks prog h) g f k w p

/-- the invariant itself, for every state a run can end in: references in bounds, scopes non-empty -/
theorem run_keeps_invariant (prog : List Stmt) (hp : progWF prog = true) (g : GcMode) (f k : Nat) (w : World) (s' : St)
    (h : runLoop prog g f k prog (St.init w) = .ok s') : StOK (fun _ _ => True) prog s' := by
  have := runLoop_good (fun _ _ => True) prog hp (fun _ _ _ _ _ _ _ _ _ _ => trivial) g f k prog (St.init w)
    (IsSuffixOf.refl _) (stOK_init _ prog w)
  rw [h] at this; exact this

/-- every single statement step and every evaluation from a state satisfying the invariant: no panic
    (this is what `run_never_panics` iterates; stated for arbitrary reachable-like states, not only runs) -/
theorem step_never_panics (prog : List Stmt) (hp : progWF prog = true) (f : Nat) (cur : List Stmt) (s : St)
    (hsuf : IsSuffixOf cur prog) (hs : StOK (fun _ _ => True) prog s) (p : String) : exec prog f cur s ≠ .panic p := by
  have := (evalInv (fun _ _ => True) prog hp (fun _ _ _ _ _ _ _ _ _ _ => trivial) f).exec cur s hsuf hs
  intro h; rw [h] at this; exact this

/-- non-vacuity: a program with a record literal, a re-assignment and a list index is well formed, and the
    initial state satisfies the invariant -/
example : progWF [Stmt.assign { kind := .first, var := default, indexes := [], init := some (.record (.cons (.str ['k'] default) .nil) (.cons (.num 0 default) .nil) default) } default,
                  Stmt.assign { kind := .re, var := default, indexes := [.list (.cons (.str ['k'] default) .nil) default], init := some (.num 0 default) } default,
                  Stmt.eos default] = true := by decide
example (prog : List Stmt) (w : World) : StOK (fun _ _ => True) prog (St.init w) := stOK_init _ prog w

/-- **everything printed before a fault is kept**: when a run stops with an error, the output reported with it extends
    the output of every earlier state of the run — here: of the state the run (or its remainder) started from -/
theorem error_keeps_output (prog : List Stmt) (g : GcMode) (f k : Nat) (cur : List Stmt) (s : St) (e : PErr)
    (h : runLoop prog g f k cur s = .err e) : ∃ t, outText e.out = outText s.out ++ t := by
  have := runLoop_out prog g f k cur s
  rw [h] at this; exact this

/-- **the interpreter never invents a location**: the file and line of every located runtime error are a location written in the
    program — of a statement, an expression or an identifier (imported code carries its module's file, a function body its own
    lines) — for every program, world, collection schedule and fuel -/
theorem reported_location_is_written_in_the_program (prog : List Stmt) (g : GcMode) (f : Nat) (w : World) (e : PErr)
    (h : runLoop prog g f 0 prog (St.init w) = .err e) (hc : e.cls ≠ .unexpected) :
    (⟨e.line, e.file⟩ : Meta) ∈ progLabels prog := by
  apply Classical.byContradiction
  intro hn
  generalize hm0 : (⟨e.line, e.file⟩ : Meta) = m0 at hn
  let σ : Meta → Meta := fun m => if m = m0 then ⟨m0.line + 1, m0.file⟩ else m
  have hfix : ∀ m ∈ progLabels prog, σ m = m := by
    intro m hm
    have : m ≠ m0 := fun heq => hn (by rw [← heq]; exact hm)
    simp only [σ, this, if_false]
  have hr := runLoop_relabel σ prog g f 0 prog (St.init w)
  rw [relL_fix σ prog hfix, show relSt σ (St.init w) = St.init w from rfl, h] at hr
  simp only [Res.rel_err, Res.err.injEq] at hr
  have hcls : (e.cls == ErrClass.unexpected) = false := by
    cases hcl : e.cls <;> first | rfl | exact absurd hcl hc
  have hl := congrArg PErr.line hr
  simp only [relErr, hcls, Bool.false_eq_true, if_false, hm0, σ, if_true] at hl
  have : m0.line = e.line := by rw [← hm0]
  omega

end C13
end Pakhi
