/-
  C14 — imported modules are namespaced: no name capture in either direction.

  Token-level theorems about the module loader: every identifier of a module that is not a built-in
  function or the built-in constant `_প্ল্যাটফর্ম` receives exactly the prefix `alias/` (nested imports
  compose: `A/B/n`), everything else about the token stream is unchanged; prefixed names of different
  aliases, and of a module and its importer, never coincide when user identifiers contain no `/`;
  `_ডাইরেক্টরি` is replaced, before renaming, by the directory of the file it is written in; the
  module's tokens are spliced once, directly after the import statement.  The behavioural clause
  (moving definitions into a module does not change behaviour) is decided by the C14 check against
  the renamed-apart inlined program.
-/
import Pakhi.Model.Parser

namespace Pakhi
namespace C14

/-- the loader renames token by token: kinds, lines, files and the number of tokens are unchanged -/
theorem prefix_shape (toks : List Token) (name : Str) :
    (prependName toks name).length = toks.length ∧
    ∀ (i : Nat) (t : Token), toks[i]? = some t → ∃ t' : Token, (prependName toks name)[i]? = some t' ∧ t'.kind = t.kind ∧ t'.line = t.line ∧ t'.file = t.file := by
  refine ⟨by simp [prependName], ?_⟩
  intro i t ht
  simp only [prependName, List.getElem?_map, ht, Option.map_some]
  refine ⟨_, rfl, ?_⟩
  split <;> simp

/-- exactly the user identifiers are prefixed with `alias/` -/
theorem prefix_all (toks : List Token) (name : Str) (i : Nat) (t : Token) (ht : toks[i]? = some t) :
    (prependName toks name)[i]? = some
      (if t.kind == .ident && !isBuiltin t.lexeme && t.lexeme != platformConst
       then { t with lexeme := name ++ ('/' :: t.lexeme) } else t) := by
  simp [prependName, List.getElem?_map, ht]

/-- built-in functions and the built-in constant work unqualified inside modules -/
theorem builtins_not_renamed (toks : List Token) (name : Str) (i : Nat) (t : Token) (ht : toks[i]? = some t)
    (hb : isBuiltin t.lexeme = true ∨ t.lexeme = platformConst ∨ t.kind ≠ .ident) :
    (prependName toks name)[i]? = some t := by
  rw [prefix_all toks name i t ht]
  rcases hb with h | h | h
  · simp [h]
  · simp [h]
  · have : (t.kind == TK.ident) = false := by simpa using h
    simp [this]

/-- nested imports compose: importing `B` inside module `A` gives the names the prefix `A/B/` -/
theorem prefix_compose (a b x : Str) : a ++ ('/' :: (b ++ ('/' :: x))) = (a ++ ('/' :: b)) ++ ('/' :: x) := by simp

theorem prefix_cancel : ∀ (a x y : Str), a ++ ('/' :: x) = a ++ ('/' :: y) → x = y
  | [], x, y, h => by simpa using h
  | _ :: a, x, y, h => prefix_cancel a x y (by simpa using h)

/-- names of modules imported under different slash-free aliases never coincide, and equal names
    under the same alias come from equal names -/
theorem prefix_injective : ∀ (a b x y : Str), '/' ∉ a → '/' ∉ b → a ++ ('/' :: x) = b ++ ('/' :: y) → a = b ∧ x = y
  | [], [], x, y, _, _, h => by simpa using h
  | [], c :: b, x, y, _, hb, h => by
      simp at h; exact absurd h.1.symm (by intro e; apply hb; simp [e])
  | c :: a, [], x, y, ha, _, h => by
      simp at h; exact absurd h.1 (by intro e; apply ha; simp [e])
  | c :: a, d :: b, x, y, ha, hb, h => by
      simp at h
      have := prefix_injective a b x y (by intro e; apply ha; simp [e]) (by intro e; apply hb; simp [e]) h.2
      exact ⟨by simp [h.1, this.1], this.2⟩

/-- a module's name is never captured by (and never captures) a slash-free name of the importer -/
theorem no_capture (a x y : Str) (hy : '/' ∉ y) : a ++ ('/' :: x) ≠ y := by
  intro h; apply hy; rw [← h]; simp

/-- built-in names contain no `/`, so a prefixed name never collides with a built-in either -/
theorem builtins_slash_free : ∀ n ∈ builtinNames, '/' ∉ n := by decide

/-- `_ডাইরেক্টরি` becomes the string token holding the directory of the file it is written in;
    every other token is unchanged -/
theorem dirname_per_file (ctx : PCtx) (toks toks' : List Token) (loc d : Str) (hd : dirWithSlash ctx loc = .ok d)
    (h : expandDirname ctx toks loc = .ok toks') (i : Nat) (t : Token) (ht : toks[i]? = some t) :
    toks'[i]? = some (if t.kind == .ident && t.lexeme == dirnameConst then { t with kind := .str d, lexeme := d } else t) := by
  unfold expandDirname at h
  split at h
  · simp [hd] at h; subst h; simp [List.getElem?_map, ht]
  · rename_i hn
    simp at h; subst h
    have : ¬ (t.kind == .ident && t.lexeme == dirnameConst) = true := by
      intro hc; apply hn
      simp only [List.any_eq_true]
      exact ⟨t, List.mem_of_getElem? ht, hc⟩
    simp [ht, this]

/-- the directory is computed from the module's own location, with a trailing `/` -/
theorem dirname_value (ctx : PCtx) (loc d : Str) (hd : dirWithSlash ctx loc = .ok d) :
    ∃ par, pathParent (absPath ctx loc) = some par ∧ d = (if endsWith par ['/'] then par else par ++ ['/']) := by
  unfold dirWithSlash at hd
  split at hd
  · simp at hd
  · rename_i par hp; exact ⟨par, hp, by simpa using hd.symm⟩

/-- the module's tokens (without its end marker) are spliced exactly once, directly after the `;` of
    the import statement, and the import edge is recorded -/
theorem splice_once (ctx : PCtx) (s : PS) (name path : Str) (off : Nat) (imported : List Token) (childs : List Str)
    (semi : Token) (tail : List Token)
    (h1 : importPathTail (s.rest.drop 2) = .ok (path, off)) (h2 : endsWith path W.extPakhi = true)
    (h3 : moduleTokens ctx path name = .ok imported) (h4 : allImportPaths imported = .ok childs)
    (h5 : importsBack (relSet s.rel path (addNew ((relGet s.rel path).getD []) childs)) path = false)
    (h6 : s.rest.drop (2 + off) = semi :: tail) :
    ∃ s', namedModuleImport ctx s name = .ok s' ∧
      s'.rest = semi :: (imported.filter (·.kind != .eot) ++ tail) ∧
      s'.rel = relSet s.rel path (addNew ((relGet s.rel path).getD []) childs) := by
  simp [namedModuleImport, h1, h2, h3, h4, h5, h6]

example : isBuiltin W.fnListPush = true ∧ isBuiltin W.kwPrint = false := by decide

end C14
end Pakhi
