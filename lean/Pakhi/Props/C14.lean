/-
  C14 — imported modules are namespaced: no name capture in either direction.

  Token-level theorems about the module loader: every identifier of a module that is not a built-in
  function or the built-in constant `_প্ল্যাটফর্ম` receives exactly the prefix `alias/` (nested imports
  compose: `A/B/n`), everything else about the token stream is unchanged; prefixed names of different
  aliases, and of a module and its importer, never coincide when user identifiers contain no `/`;
  `_ডাইরেক্টরি` is replaced, before renaming, by the directory of the file it is written in; the
  module's tokens are spliced once, directly after the import statement.  **Behavioural clause** (last
  part of the file): the qualification `n ↦ A/n` is an injective renaming of user identifiers that fixes
  the built-in names and produces none, and the interpreter commutes with every such renaming
  (`runLoop_rename`, `Lemmas/Rename1…7.lean`): `qualified_code_same_run`, `qualified_program_same_outcome`,
  `consistent_renaming_same_run` — user identifiers are labels.  That parsing the spliced tokens yields
  the qualified statements in place is decided by the C14 check against the renamed-apart inlined program.
-/
import Pakhi.Model.Parser
import Pakhi.Lemmas.Rename7

namespace Pakhi
namespace C14

/-- the loader renames token by token: kinds, lines, files and the number of tokens are unchanged -/
theorem prefix_shape (toks : List Token) (name : Str) :
    (prependName toks name).length = toks.length ∧
    ∀ (i : Nat) (t : Token), toks[i]? = some t → ∃ t' : Token, (prependName toks name)[i]? = some t' ∧ t'.kind = t.kind ∧ t'.line = t.line ∧ t'.file = t.file := by
  refine ⟨by simp [prependName], ?_⟩
  intro i t ht
  simp only [prependName, List.getElem?_map, ht, Option.map_some]
  refine ⟨_, rfl, ?_⟩
  split <;> simp

/-- exactly the user identifiers are prefixed with `alias/` -/
theorem prefix_all (toks : List Token) (name : Str) (i : Nat) (t : Token) (ht : toks[i]? = some t) :
    (prependName toks name)[i]? = some
      (if t.kind == .ident && !isBuiltin t.lexeme && t.lexeme != platformConst
       then { t with lexeme := name ++ ('/' :: t.lexeme) } else t) := by
  simp [prependName, List.getElem?_map, ht]

/-- built-in functions and the built-in constant work unqualified inside modules -/
theorem builtins_not_renamed (toks : List Token) (name : Str) (i : Nat) (t : Token) (ht : toks[i]? = some t)
    (hb : isBuiltin t.lexeme = true ∨ t.lexeme = platformConst ∨ t.kind ≠ .ident) :
    (prependName toks name)[i]? = some t := by
  rw [prefix_all toks name i t ht]
  rcases hb with h | h | h
  · simp [h]
  · simp [h]
  · have : (t.kind == TK.ident) = false := by simpa using h
    simp [this]

/-- nested imports compose: importing `B` inside module `A` gives the names the prefix `A/B/` -/
theorem prefix_compose (a b x : Str) : a ++ ('/' :: (b ++ ('/' :: x))) = (a ++ ('/' :: b)) ++ ('/' :: x) := by simp

theorem prefix_cancel : ∀ (a x y : Str), a ++ ('/' :: x) = a ++ ('/' :: y) → x = y
  | [], x, y, h => by simpa using h
  | _ :: a, x, y, h => prefix_cancel a x y (by simpa using h)

/-- names of modules imported under different slash-free aliases never coincide, and equal names
    under the same alias come from equal names -/
theorem prefix_injective : ∀ (a b x y : Str), '/' ∉ a → '/' ∉ b → a ++ ('/' :: x) = b ++ ('/' :: y) → a = b ∧ x = y
  | [], [], x, y, _, _, h => by simpa using h
  | [], c :: b, x, y, _, hb, h => by
      simp at h; exact absurd h.1.symm (by intro e; apply hb; simp [e])
  | c :: a, [], x, y, ha, _, h => by
      simp at h; exact absurd h.1 (by intro e; apply ha; simp [e])
  | c :: a, d :: b, x, y, ha, hb, h => by
      simp at h
      have := prefix_injective a b x y (by intro e; apply ha; simp [e]) (by intro e; apply hb; simp [e]) h.2
      exact ⟨by simp [h.1, this.1], this.2⟩

/-- a module's name is never captured by (and never captures) a slash-free name of the importer -/
theorem no_capture (a x y : Str) (hy : '/' ∉ y) : a ++ ('/' :: x) ≠ y := by
  intro h; apply hy; rw [← h]; simp

/-- built-in names contain no `/`, so a prefixed name never collides with a built-in either -/
theorem builtins_slash_free : ∀ n ∈ builtinNames, '/' ∉ n := by decide

/-- `_ডাইরেক্টরি` becomes the string token holding the directory of the file it is written in;
    every other token is unchanged -/
theorem dirname_per_file (ctx : PCtx) (toks toks' : List Token) (loc d : Str) (hd : dirWithSlash ctx loc = .ok d)
    (h : expandDirname ctx toks loc = .ok toks') (i : Nat) (t : Token) (ht : toks[i]? = some t) :
    toks'[i]? = some (if t.kind == .ident && t.lexeme == dirnameConst then { t with kind := .str d, lexeme := d } else t) := by
  unfold expandDirname at h
  split at h
  · simp [hd] at h; subst h; simp [List.getElem?_map, ht]
  · rename_i hn
    simp at h; subst h
    have : ¬ (t.kind == .ident && t.lexeme == dirnameConst) = true := by
      intro hc; apply hn
      simp only [List.any_eq_true]
      exact ⟨t, List.mem_of_getElem? ht, hc⟩
    simp [ht, this]

/-- the directory is computed from the module's own location, with a trailing `/` -/
theorem dirname_value (ctx : PCtx) (loc d : Str) (hd : dirWithSlash ctx loc = .ok d) :
    ∃ par, pathParent (absPath ctx loc) = some par ∧ d = (if endsWith par ['/'] then par else par ++ ['/']) := by
  unfold dirWithSlash at hd
  split at hd
  · simp at hd
  · rename_i par hp; exact ⟨par, hp, by simpa using hd.symm⟩

/-- the module's tokens (without its end marker) are spliced exactly once, directly after the `;` of
    the import statement, and the import edge is recorded -/
theorem splice_once (ctx : PCtx) (s : PS) (name path : Str) (off : Nat) (imported : List Token) (childs : List Str)
    (semi : Token) (tail : List Token)
    (h1 : importPathTail (s.rest.drop 2) = .ok (path, off)) (h2 : endsWith path W.extPakhi = true)
    (h3 : moduleTokens ctx path name = .ok imported) (h4 : allImportPaths imported = .ok childs)
    (h5 : importsBack (relSet s.rel path (addNew ((relGet s.rel path).getD []) childs)) path = false)
    (h6 : s.rest.drop (2 + off) = semi :: tail) :
    ∃ s', namedModuleImport ctx s name = .ok s' ∧
      s'.rest = semi :: (imported.filter (·.kind != .eot) ++ tail) ∧
      s'.rel = relSet s.rel path (addNew ((relGet s.rel path).getD []) childs) := by
  simp [namedModuleImport, h1, h2, h3, h4, h5, h6]

example : isBuiltin W.fnListPush = true ∧ isBuiltin W.kwPrint = false := by decide

/-- the renaming that `prepend_with_import_name` applies to the identifiers of a module imported as `A` -/
def qual (A : Str) (n : Str) : Str := if !isBuiltin n && n != platformConst then A ++ ('/' :: n) else n

theorem platform_slash_free : '/' ∉ platformConst := by decide

theorem qual_fixes_builtins (A n : Str) (h : isBuiltin n = true) : qual A n = n := by simp [qual, h]
theorem qual_fixes_platform (A : Str) : qual A platformConst = platformConst := by simp [qual]

theorem isBuiltin_slash (x : Str) (h : '/' ∈ x) : isBuiltin x = false := by
  cases hb : isBuiltin x with
  | false => rfl
  | true =>
    have hm : x ∈ builtinNames := by simpa [isBuiltin] using hb
    exact absurd h (builtins_slash_free x hm)

theorem qual_keeps_builtin_status (A n : Str) : isBuiltin (qual A n) = isBuiltin n := by
  unfold qual
  split
  · rename_i h
    have hn : isBuiltin n = false := by
      cases hb : isBuiltin n <;> simp_all
    rw [hn]; exact isBuiltin_slash _ (by simp)
  · rfl

theorem qual_injective (A : Str) (hA : '/' ∉ A) (a b : Str) (h : qual A a = qual A b) : a = b := by
  have fixed_no_slash : ∀ n, ¬ ((!isBuiltin n && n != platformConst) = true) → '/' ∉ n := by
    intro n hn
    have : isBuiltin n = true ∨ n = platformConst := by
      cases hb : isBuiltin n
      · right; simpa [hb] using hn
      · left; rfl
    rcases this with hb | rfl
    · exact builtins_slash_free n (by simpa [isBuiltin] using hb)
    · exact platform_slash_free
  unfold qual at h
  split at h <;> split at h
  · exact prefix_cancel A a b h
  · rename_i h1 h2; exact absurd (h ▸ (by simp : '/' ∈ A ++ '/' :: a)) (fixed_no_slash b h2)
  · rename_i h1 h2; exact absurd (h ▸ (by simp : '/' ∈ A ++ '/' :: b)) (fixed_no_slash a h1)
  · exact h

/-- `prepend_with_import_name` IS this renaming applied to every identifier token -/
theorem prependName_is_renaming (toks : List Token) (A : Str) :
    prependName toks A = toks.map (fun t => if t.kind == .ident then rnTok (qual A) t else t) := by
  unfold prependName
  apply List.map_congr_left
  intro t _
  by_cases hk : (t.kind == TK.ident) = true
  · simp only [hk, Bool.true_and, if_true, rnTok, qual]
    split <;> rfl
  · simp [hk]

/-- **qualifying a module's identifiers does not change what its code does**: the module's statements with every user identifier `n`
    turned into `A/n` (built-ins and `_প্ল্যাটফর্ম` left alone) run exactly like the unqualified statements, variable for variable —
    same output, heap, world, collections, the very same error; only the names under which the scopes hold the values are qualified.
    This is why moving definitions into a module and qualifying their uses preserves behaviour, and why two modules (or importer and
    module) with equal names cannot capture each other: the qualified names are the images of an injective map. -/
theorem qualified_code_same_run (A : Str) (hA : '/' ∉ A) (prog : List Stmt) (g : GcMode) (f k : Nat) (cur : List Stmt) (s : St) :
    runLoop (rnL (qual A) prog) g f k (rnL (qual A) cur) (rnSt (qual A) s) = (runLoop prog g f k cur s).rn (rnSt (qual A)) :=
  runLoop_rename (qual A) prog (qual_injective A hA) (qual_fixes_builtins A) (qual_keeps_builtin_status A) g f k cur s

/-- … from the initial state: a whole program and its qualified copy print the same and end the same way -/
theorem qualified_program_same_outcome (A : Str) (hA : '/' ∉ A) (prog : List Stmt) (g : GcMode) (f : Nat) (w : World) :
    runLoop (rnL (qual A) prog) g f 0 (rnL (qual A) prog) (St.init w) = (runLoop prog g f 0 prog (St.init w)).rn (rnSt (qual A)) := by
  have h := qualified_code_same_run A hA prog g f 0 prog (St.init w)
  have hi : rnSt (qual A) (St.init w) = St.init w := by
    simp [rnSt, St.init, rnScope, qual_fixes_platform, rnHeap, Heap.empty, rnV]
  rw [hi] at h; exact h

/-- the general statement: ANY consistent renaming of user identifiers (injective, fixing the built-in names, producing none) -/
theorem consistent_renaming_same_run (ρ : Str → Str) (prog : List Stmt) (hinj : ∀ a b, ρ a = ρ b → a = b)
    (hbi : ∀ n, isBuiltin n = true → ρ n = n) (hnb : ∀ n, isBuiltin (ρ n) = isBuiltin n) (g : GcMode) (f k : Nat) (cur : List Stmt) (s : St) :
    runLoop (rnL ρ prog) g f k (rnL ρ cur) (rnSt ρ s) = (runLoop prog g f k cur s).rn (rnSt ρ) :=
  runLoop_rename ρ prog hinj hbi hnb g f k cur s

example : qual ['A'] ['x'] = ['A', '/', 'x'] ∧ qual ['A'] W.fnListPush = W.fnListPush := by decide

end C14
end Pakhi
