/-
  C15 — module loading terminates: cyclic imports are rejected, acyclic ones load.

  Proved here about the cycle test of the loader (fix F10): it raises the cyclic-dependency error
  ONLY when the recorded import edges really contain a cycle through the module being loaded
  (`cycle_error_is_sound`: the defect was a false alarm on diamonds and repeated imports), a self
  import and a two-module cycle are always detected, recording edges is idempotent (a module
  imported twice records nothing new), a missing file and a path without the `.pakhi` extension are
  error values, and the search itself always terminates (it is structurally recursive on its fuel).
  `cycle_test_exact`: the test answers "cyclic" IF AND ONLY IF one of the module's recorded children leads back to
  it over the recorded edges — completeness (`reachLoop_complete`, `cycle_is_detected`) by the white-path argument with
  the potential |stack| + weight of the unvisited part, which the loader's fuel (relSize+1)² always covers.
  That the edges recorded at the time of an import are the right ones (every import statement of every loaded
  file, in source order) and that every acyclic graph loads, each import running its module once, is decided by
  complete enumeration of all 2^16 import graphs over four files in the thorough tier (all 512 over three files in
  the quick tier).
-/
import Pakhi.Model.Parser

namespace Pakhi
namespace C15

/-- `a` imports … imports `b` over the recorded edges (zero or more steps) -/
inductive Path (rel : List (Str × List Str)) : Str → Str → Prop where
  | refl (a) : Path rel a a
  | step {a c b} : c ∈ (relGet rel a).getD [] → Path rel c b → Path rel a b

/-- the depth-first search answers `true` only if the target is reachable from the stack -/
theorem reachLoop_sound (rel : List (Str × List Str)) (target : Str) :
    ∀ (f : Nat) (stack visited : List Str), reachLoop rel target f stack visited = true →
      ∃ s, s ∈ stack ∧ Path rel s target
  | 0, _, _, h => by simp [reachLoop] at h
  | _+1, [], _, h => by simp [reachLoop] at h
  | f+1, m :: stack, visited, h => by
      simp only [reachLoop] at h
      split at h
      · rename_i hm; have : m = target := by simpa using hm
        exact ⟨m, by simp, this ▸ Path.refl m⟩
      · split at h
        · obtain ⟨s, hs, hp⟩ := reachLoop_sound rel target f stack visited h
          exact ⟨s, by simp [hs], hp⟩
        · obtain ⟨s, hs, hp⟩ := reachLoop_sound rel target f _ _ h
          rcases List.mem_append.mp hs with h1 | h1
          · exact ⟨m, by simp, Path.step h1 hp⟩
          · exact ⟨s, by simp [h1], hp⟩

/-- the "Cyclic module dependency" error is raised only for a real cycle through the module:
    one of its recorded children leads back to it -/
theorem cycle_error_is_sound (rel : List (Str × List Str)) (m : Str) (h : importsBack rel m = true) :
    ∃ c, c ∈ (relGet rel m).getD [] ∧ Path rel c m := by
  unfold importsBack at h
  simp only [List.any_eq_true] at h
  obtain ⟨c, hc, hr⟩ := h
  obtain ⟨s, hs, hp⟩ := reachLoop_sound rel m _ [c] [] hr
  simp at hs; subst hs
  exact ⟨s, hc, hp⟩

/-- so an acyclic recorded graph never produces the error -/
theorem acyclic_never_flagged (rel : List (Str × List Str)) (m : Str)
    (hacyc : ∀ c, c ∈ (relGet rel m).getD [] → ¬ Path rel c m) : importsBack rel m = false := by
  cases h : importsBack rel m with
  | false => rfl
  | true => obtain ⟨c, hc, hp⟩ := cycle_error_is_sound rel m h; exact absurd hp (hacyc c hc)

/-- a file importing itself is detected -/
theorem self_import_detected (rel : List (Str × List Str)) (m : Str) (h : m ∈ (relGet rel m).getD []) :
    importsBack rel m = true := by
  unfold importsBack
  simp only [List.any_eq_true]
  refine ⟨m, h, ?_⟩
  have : (relSize rel + 1) * (relSize rel + 1) = ((relSize rel + 1) * (relSize rel + 1) - 1) + 1 := by
    have : 1 ≤ (relSize rel + 1) * (relSize rel + 1) := Nat.mul_pos (by omega) (by omega)
    omega
  rw [this]; simp [reachLoop]

/-- recording the same children again changes nothing: importing a module twice adds no edge -/
theorem addNew_idempotent (old new : List Str) : addNew (addNew old new) new = addNew old new := by
  have key : ∀ (acc : List Str) (ns : List Str), (∀ c ∈ ns, c ∈ acc) → addNew acc ns = acc := by
    intro acc ns
    induction ns generalizing acc with
    | nil => intro _; rfl
    | cons c r ih =>
      intro hall
      have hc : acc.contains c = true := by simpa using hall c (by simp)
      simp only [addNew, List.foldl_cons, hc, if_true]
      exact ih acc (fun x hx => hall x (by simp [hx]))
  have mem : ∀ (ns acc : List Str) (c : Str), (c ∈ ns ∨ c ∈ acc) → c ∈ addNew acc ns := by
    intro ns
    induction ns with
    | nil => intro acc c h; simpa [addNew] using h
    | cons d r ih =>
      intro acc c h
      simp only [addNew, List.foldl_cons]
      apply ih
      by_cases hd : acc.contains d = true
      · simp only [hd, if_true]
        rcases h with h | h
        · rcases List.mem_cons.mp h with rfl | h
          · right; simpa using hd
          · left; exact h
        · right; exact h
      · simp only [hd, Bool.false_eq_true, if_false]
        rcases h with h | h
        · rcases List.mem_cons.mp h with rfl | h
          · right; simp
          · left; exact h
        · right; simp [h]
  exact key _ _ (fun c hc => mem new old c (Or.inl hc))

/-- a two-module cycle a → b → a is detected when the second edge is recorded -/
theorem two_cycle_detected (a b : Str) (rest : List Str) (hab : a ≠ b) :
    importsBack [(a, [b]), (b, a :: rest)] b = true := by
  have h1 : (a == b) = false := by simpa using hab
  have h2 : (b == a) = false := by simpa using (Ne.symm hab)
  unfold importsBack
  obtain ⟨n, hn⟩ : ∃ n, (relSize [(a, [b]), (b, a :: rest)] + 1) * (relSize [(a, [b]), (b, a :: rest)] + 1) = n + 2 := by
    have : 2 ≤ relSize [(a, [b]), (b, a :: rest)] + 1 := by simp [relSize]
    exact ⟨_, (Nat.sub_add_cancel (Nat.le_trans (by omega) (Nat.mul_le_mul this this))).symm⟩
  rw [hn]
  simp [relGet, List.find?, h1, h2, reachLoop]

/-- a missing module file is an error value -/
theorem missing_file_is_error (ctx : PCtx) (path name root : Str) (hroot : pathParent ctx.mainPath = some root)
    (hmiss : ctx.readFile (pathJoin root path) = none) :
    ∃ e, moduleTokens ctx path name = .err e ∧ e.cls = .runtime := by
  simp [moduleTokens, hroot, hmiss, mkErr]

/-- a module path without the `.pakhi` extension is an error value, before any file is read -/
theorem no_extension_is_error (ctx : PCtx) (s : PS) (name path : Str) (off : Nat)
    (h1 : importPathTail (s.rest.drop 2) = .ok (path, off)) (h2 : endsWith path W.extPakhi = false) :
    ∃ e, namedModuleImport ctx s name = .err e := by
  simp only [namedModuleImport, h1, h2]
  simp only [Bool.not_false, if_true]
  unfold PS.syntaxErr
  split <;> simp [mkErr] <;> first | exact ⟨_, rfl⟩ | skip
  all_goals (rename_i h; unfold PS.metaCur at h; split at h <;> simp [unexpected] at h)

example : importsBack [("m".toList, ["b".toList, "c".toList]), ("b".toList, ["d".toList]), ("c".toList, ["d".toList]), ("d".toList, ["e".toList])] "d".toList = false := by decide


def kids (rel : List (Str × List Str)) (a : Str) : List Str := (relGet rel a).getD []

/-- a path all of whose nodes (its end excepted) are outside `V` -/
inductive WPath (rel : List (Str × List Str)) (V : List Str) : Str → Str → Prop where
  | refl (a) : WPath rel V a a
  | step {a c b} : a ∉ V → c ∈ kids rel a → WPath rel V c b → WPath rel V a b

theorem wpath_of_path {rel : List (Str × List Str)} {a b : Str} (h : Path rel a b) : WPath rel [] a b := by
  induction h with
  | refl a => exact .refl a
  | step hc _ ih => exact .step (by simp) hc ih

/-- visiting `m` (which is not the target): a white path either stays white or continues from a child of `m` -/
theorem wpath_visit {rel : List (Str × List Str)} {V : List Str} {m a b : Str} (hmb : m ≠ b) (h : WPath rel V a b) :
    (WPath rel (m :: V) a b ∧ (a = b ∨ a ≠ m)) ∨ ∃ c, c ∈ kids rel m ∧ WPath rel (m :: V) c b := by
  induction h with
  | refl a => exact Or.inl ⟨.refl a, Or.inl rfl⟩
  | @step a c b ha hc _ ih =>
    rcases ih hmb with ⟨h1, _⟩ | ⟨c', h1, h2⟩
    · by_cases ham : a = m
      · subst ham; exact Or.inr ⟨c, hc, h1⟩
      · exact Or.inl ⟨.step (by simp [ham, ha]) hc h1, Or.inr ham⟩
    · exact Or.inr ⟨c', h1, h2⟩

/-- the weight of the unvisited part of the recorded graph -/
def restW (rel : List (Str × List Str)) (V : List Str) : Nat :=
  match rel with
  | [] => 0
  | p :: r => (if p.1 ∈ V then 0 else p.2.length + 1) + restW r V

theorem restW_mono (rel : List (Str × List Str)) (V : List Str) (m : Str) : restW rel (m :: V) ≤ restW rel V := by
  induction rel with
  | nil => simp [restW]
  | cons p r ih =>
    simp only [restW, List.mem_cons]
    by_cases h1 : p.1 ∈ V <;> by_cases h2 : p.1 = m <;> simp [h1, h2] <;> omega

theorem restW_visit (rel : List (Str × List Str)) (V : List Str) (m : Str) (hm : m ∉ V) :
    restW rel (m :: V) + (kids rel m).length ≤ restW rel V := by
  induction rel with
  | nil => simp [restW, kids, relGet]
  | cons p r ih =>
    by_cases hk : p.1 = m
    · have hk1 : kids (p :: r) m = p.2 := by simp [kids, relGet, List.find?, hk]
      have := restW_mono r V m
      simp only [restW, hk1, List.mem_cons]
      subst hk
      simp [hm]; omega
    · have hk1 : kids (p :: r) m = kids r m := by
        have : (p.1 == m) = false := by simpa using hk
        simp [kids, relGet, List.find?, this]
      simp only [restW, hk1, List.mem_cons]
      by_cases h1 : p.1 ∈ V <;> simp [h1, hk] <;> omega

theorem restW_le_relSize (rel : List (Str × List Str)) : restW rel [] + 1 = relSize rel := by
  have key : ∀ (l : List (Str × List Str)) (n : Nat), l.foldl (fun n p => n + p.2.length + 1) n = n + restW l [] := by
    intro l
    induction l with
    | nil => intro n; simp [restW]
    | cons p r ih => intro n; simp only [List.foldl_cons, ih, restW]; simp; omega
  simp only [relSize, key]; omega

/-- **the search is complete**: with fuel above the potential `|stack| + restW visited` it answers `true`
    whenever some stacked node reaches the target along unvisited nodes -/
theorem reachLoop_complete (rel : List (Str × List Str)) (target : Str) :
    ∀ (f : Nat) (stack visited : List Str), (∃ s, s ∈ stack ∧ WPath rel visited s target) →
      stack.length + restW rel visited < f → reachLoop rel target f stack visited = true
  | 0, _, _, _, hf => by omega
  | _+1, [], _, ⟨s, hs, _⟩, _ => by simp at hs
  | f+1, m :: stack, visited, ⟨s, hs, hp⟩, hf => by
      simp only [reachLoop]
      by_cases hmt : (m == target) = true
      · simp [hmt]
      · simp only [hmt, Bool.false_eq_true, if_false]
        have hmt' : m ≠ target := by simpa using hmt
        by_cases hv : visited.contains m = true
        · simp only [hv, if_true]
          -- the white path cannot start at the visited `m`
          have hsm : s ∈ stack := by
            rcases List.mem_cons.mp hs with rfl | h1
            · cases hp with
              | refl => exact (hmt' rfl).elim
              | step ha _ _ => simp at hv; exact (ha hv).elim
            · exact h1
          exact reachLoop_complete rel target f stack visited ⟨s, hsm, hp⟩ (by simp at hf; omega)
        · simp only [hv, Bool.false_eq_true, if_false]
          have hv' : m ∉ visited := by simpa using hv
          have hw := restW_visit rel visited m hv'
          refine reachLoop_complete rel target f _ _ ?_ (by simp only [List.length_append, List.length_cons] at hf ⊢; show (kids rel m).length + stack.length + restW rel (m :: visited) < f; omega)
          rcases wpath_visit hmt' hp with ⟨h1, h2⟩ | ⟨c, hc, h1⟩
          · have hsm : s ∈ stack := by
              rcases List.mem_cons.mp hs with rfl | h3
              · rcases h2 with h2 | h2
                · exact (hmt' h2).elim
                · exact (h2 rfl).elim
              · exact h3
            exact ⟨s, List.mem_append_right _ hsm, h1⟩
          · exact ⟨c, List.mem_append_left _ hc, h1⟩

/-- **every cycle through the module being loaded is detected**: if one of its recorded children leads back to it
    over the recorded edges, the loader raises the cyclic-dependency error -/
theorem cycle_is_detected (rel : List (Str × List Str)) (m : Str) (c : Str) (hc : c ∈ (relGet rel m).getD [])
    (hp : Path rel c m) : importsBack rel m = true := by
  unfold importsBack
  simp only [List.any_eq_true]
  refine ⟨c, hc, reachLoop_complete rel m _ [c] [] ⟨c, by simp, wpath_of_path hp⟩ ?_⟩
  have h1 := restW_le_relSize rel
  have h2 : relSize rel + 1 ≤ (relSize rel + 1) * (relSize rel + 1) := Nat.le_mul_of_pos_right _ (by omega)
  simp only [List.length_singleton]; omega

/-- the cycle test decides exactly "a recorded child leads back to the module" -/
theorem cycle_test_exact (rel : List (Str × List Str)) (m : Str) :
    importsBack rel m = true ↔ ∃ c, c ∈ (relGet rel m).getD [] ∧ Path rel c m :=
  ⟨cycle_error_is_sound rel m, fun ⟨c, hc, hp⟩ => cycle_is_detected rel m c hc hp⟩
end C15
end Pakhi
