/-
  C16 — list built-ins behave like operations on a mathematical sequence.

  Point-wise characterisations of the sequence operations behind `_লিস্ট-পুশ` / `_লিস্ট-পপ`
  (`insertAt` = `Vec::insert`, `removeAt` = `Vec::remove`, append, remove-last) for every list,
  every position and every value; the validity condition of `list_position`; and the refinement
  statements: each built-in, applied through any alias (= arena index), turns the arena cell into
  the result of the abstract sequence operation, leaves every other cell alone, and an invalid
  position or a non-list argument produces no new state at all.
-/
import Pakhi.Lemmas.Seq

namespace Pakhi
namespace C16

/-- insert at `i ≤ len`: length + 1 -/
theorem insert_length (l : List Val) (i : Nat) (x : Val) (h : i ≤ l.length) :
    (insertAt l i x).length = l.length + 1 := insertAt_length l i x h
/-- insert: positions before `i` are unchanged -/
theorem insert_before (l : List Val) (i j : Nat) (x : Val) (hi : i ≤ l.length) (hj : j < i) :
    (insertAt l i x)[j]? = l[j]? := insertAt_get_lt l i j x hi hj
/-- insert: position `i` holds the value -/
theorem insert_at (l : List Val) (i : Nat) (x : Val) (hi : i ≤ l.length) :
    (insertAt l i x)[i]? = some x := insertAt_get_eq l i x hi
/-- insert: the tail is shifted right -/
theorem insert_after (l : List Val) (i j : Nat) (x : Val) (hi : i ≤ l.length) (hj : i < j) :
    (insertAt l i x)[j]? = l[j - 1]? := insertAt_get_gt l i j x hi hj
/-- remove at `i < len`: length − 1 -/
theorem remove_length (l : List Val) (i : Nat) (h : i < l.length) :
    (removeAt l i).length = l.length - 1 := removeAt_length l i h
/-- remove: positions before `i` are unchanged -/
theorem remove_before (l : List Val) (i j : Nat) (hi : i < l.length) (hj : j < i) :
    (removeAt l i)[j]? = l[j]? := removeAt_get_lt l i j hi hj
/-- remove: the tail is shifted left -/
theorem remove_after (l : List Val) (i j : Nat) (hi : i < l.length) (hj : i ≤ j) :
    (removeAt l i)[j]? = l[j + 1]? := removeAt_get_ge l i j hi hj

/-- append acts at the end -/
theorem push_end (l : List Val) (x : Val) :
    (l ++ [x]).length = l.length + 1 ∧ (l ++ [x])[l.length]? = some x ∧
    ∀ j, j < l.length → (l ++ [x])[j]? = l[j]? := by
  refine ⟨by simp, by simp, ?_⟩
  intro j hj; simp [List.getElem?_append, hj]

/-- remove-last acts at the end (and is the identity on the empty list) -/
theorem pop_end (l : List Val) :
    l.dropLast.length = l.length - 1 ∧ ∀ j, j < l.length - 1 → l.dropLast[j]? = l[j]? := by
  refine ⟨by simp, ?_⟩
  intro j hj
  simp [List.dropLast_eq_take, List.getElem?_take, hj]

/-- a position is accepted exactly when it is not negative and, truncated, lies before `len` -/
theorem listPosition_some (n : Num.Bits) (len p : Nat) :
    listPosition n len = some p ↔ (Num.geZero n = true ∧ Num.toUsize n < len ∧ p = Num.toUsize n) := by
  unfold listPosition
  by_cases h1 : Num.geZero n = true <;> by_cases h2 : Num.toUsize n < len <;> simp [h1, h2] <;> omega

theorem listPosition_lt (n : Num.Bits) (len p : Nat) (h : listPosition n len = some p) : p < len := by
  have := (listPosition_some n len p).1 h; omega

/-- the names of the three list built-ins resolve to their implementations -/
theorem names_resolve :
    builtinOf? W.fnListPush = some .listPush ∧ builtinOf? W.fnListPop = some .listPop ∧
    builtinOf? W.fnListLen = some .listLen := by decide

/-- `_লিস্ট-পুশ(l, x)` through any alias `i`: the cell becomes the sequence with `x` appended -/
theorem push_refines (s : St) (i : Nat) (l : List Val) (x : Val) (h : s.heap.lists[i]? = some l) :
    callB .listPush [.list i, x] s =
      .inl (.nil, { s with heap := { s.heap with lists := s.heap.lists.set i (l ++ [x]) } }) := by
  simp [callB, h]

/-- `_লিস্ট-পুশ(l, n, x)` with a valid position: the cell becomes `insertAt` -/
theorem insert_refines (s : St) (i p : Nat) (l : List Val) (n : Num.Bits) (x : Val)
    (h : s.heap.lists[i]? = some l) (hp : listPosition n (l.length + 1) = some p) :
    callB .listPush [.list i, .num n, x] s =
      .inl (.nil, { s with heap := { s.heap with lists := s.heap.lists.set i (insertAt l p x) } }) := by
  simp [callB, h, hp]

/-- `_লিস্ট-পপ(l)`: the cell loses its last element -/
theorem pop_refines (s : St) (i : Nat) (l : List Val) (h : s.heap.lists[i]? = some l) :
    callB .listPop [.list i] s =
      .inl (.nil, { s with heap := { s.heap with lists := s.heap.lists.set i l.dropLast } }) := by
  simp [callB, h]

/-- `_লিস্ট-পপ(l, n)` with a valid position: the cell becomes `removeAt` -/
theorem remove_refines (s : St) (i p : Nat) (l : List Val) (n : Num.Bits)
    (h : s.heap.lists[i]? = some l) (hp : listPosition n l.length = some p) :
    callB .listPop [.list i, .num n] s =
      .inl (.nil, { s with heap := { s.heap with lists := s.heap.lists.set i (removeAt l p) } }) := by
  simp [callB, h, hp]

/-- `_লিস্ট-লেন(l)` counts the elements and changes nothing -/
theorem len_refines (s : St) (i : Nat) (l : List Val) (h : s.heap.lists[i]? = some l) :
    callB .listLen [.list i] s = .inl (.num (Num.ofNat l.length), s) := by
  simp [callB, h]

/-- an invalid insert position is an error: no new state is produced, so the list is as it was -/
theorem insert_invalid (s : St) (i : Nat) (l : List Val) (n : Num.Bits) (x : Val)
    (h : s.heap.lists[i]? = some l) (hp : listPosition n (l.length + 1) = none) :
    ∃ tag, callB .listPush [.list i, .num n, x] s = .inr tag := by
  simp [callB, h, hp]

/-- an invalid remove position is an error -/
theorem remove_invalid (s : St) (i : Nat) (l : List Val) (n : Num.Bits)
    (h : s.heap.lists[i]? = some l) (hp : listPosition n l.length = none) :
    ∃ tag, callB .listPop [.list i, .num n] s = .inr tag := by
  simp [callB, h, hp]

/-- a non-list first argument is an error for every list built-in and every arity -/
theorem non_list_is_error (s : St) (v : Val) (rest : List Val) (hv : ∀ i, v ≠ .list i) :
    (∃ t, callB .listPush (v :: rest) s = .inr t) ∧ (∃ t, callB .listPop (v :: rest) s = .inr t) ∧
    (∃ t, callB .listLen (v :: rest) s = .inr t) := by
  cases v <;> first | exact absurd rfl (hv _) | skip
  all_goals (refine ⟨?_, ?_, ?_⟩ <;> (match rest with
    | [] => simp [callB]
    | [_] => simp [callB]
    | [_, _] => simp [callB]
    | _ :: _ :: _ :: _ => simp [callB]))

/-- a non-number position is an error -/
theorem non_number_position_is_error (s : St) (i : Nat) (l : List Val) (p x : Val)
    (h : s.heap.lists[i]? = some l) (hp : ∀ n, p ≠ .num n) :
    (∃ t, callB .listPush [.list i, p, x] s = .inr t) ∧ (∃ t, callB .listPop [.list i, p] s = .inr t) := by
  cases p <;> first | exact absurd rfl (hp _) | simp [callB, h]

example : insertAt [.nil, .bool true] 1 (.bool false) = [.nil, .bool false, .bool true] := by decide
example : removeAt [.nil, .bool false, .bool true] 1 = [.nil, .bool true] := by decide

end C16
end Pakhi
