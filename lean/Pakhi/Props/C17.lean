/-
  C17 — string built-ins: split and join are inverse; type names are total.
-/
import Pakhi.Lemmas.Split
import Pakhi.Model.Interp

namespace Pakhi
namespace C17

/-- joining the fields of a split with the same non-empty separator gives the string back — for
    every string (empty, only separators, leading / trailing / adjacent separators, separator equal
    to the string, multi-character and overlapping separators) -/
theorem join_of_split (s sep : Str) (hsep : sep ≠ []) : joinStr sep (splitStr s sep) = s :=
  join_split s sep hsep

/-- splitting by the empty string yields the characters -/
theorem split_by_empty (s : Str) : splitStr s [] = s.map (fun c => [c]) := split_empty_sep s

/-- joining a non-empty list whose elements do not contain the single separator character and
    splitting again returns the list -/
theorem split_of_join_singleChar (c : Char) (l : List Str) (hl : l ≠ []) (hno : ∀ x ∈ l, c ∉ x) :
    splitStr (joinStr [c] l) [c] = l := split_join_singleChar c l hl hno

/-- the same clause is FALSE for multi-character separators (KNOWN-FINDING C17-multichar):
    `["a","x"]` joined with `"aa"` is `"aaax"`, which splits into `["", "ax"]` -/
theorem split_of_join_multiChar_false :
    ∃ (sep : Str) (l : List Str), l ≠ [] ∧ (∀ x ∈ l, ¬ ∃ pre post, x = pre ++ sep ++ post) ∧
      splitStr (joinStr sep l) sep ≠ l := by
  refine ⟨['a', 'a'], [['a'], ['x']], by decide, ?_, by decide⟩
  intro x hx ⟨pre, post, h⟩
  simp at hx
  rcases hx with rfl | rfl <;> (have := congrArg List.length h; simp at this; omega)

/-- a split always has at least one field -/
theorem split_nonempty (s sep : Str) (hsep : sep ≠ []) : splitStr s sep ≠ [] := by
  unfold splitStr
  have : sep.isEmpty = false := by cases sep <;> simp_all
  simp [this]; exact splitGo_ne_nil sep _ s []

/-- `_টাইপ` is total and gives the seven constructors seven different names -/
theorem typeName_injective_on_kinds :
    [typeName (.num 0), typeName (.bool true), typeName (.str []), typeName (.list 0), typeName (.record 0),
     typeName (.func 0 []), typeName .nil].Nodup := by decide

/-- the name depends on the constructor only -/
theorem typeName_kind (v : Val) :
    typeName v ∈ [W.tyNum, W.tyBool, W.tyString, W.tyList, W.tyRecord, W.tyFunc, W.tyNil] := by
  cases v <;> simp [typeName]

theorem names_resolve :
    builtinOf? W.fnStringSplit = some .stringSplit ∧ builtinOf? W.fnStringJoin = some .stringJoin ∧
    builtinOf? W.fnType = some .type := by decide

/-- `_স্ট্রিং-স্প্লিট(s, sep)` allocates the list of fields -/
theorem split_builtin (st : St) (s sep : Str) :
    callB .stringSplit [.str s, .str sep] st =
      .inl ((st.heap.allocList ((splitStr s sep).map .str)).1, { st with heap := (st.heap.allocList ((splitStr s sep).map .str)).2 }) := by
  simp [callB]

/-- `_স্ট্রিং-জয়েন(l, sep)` on a list of strings -/
theorem join_builtin (st : St) (i : Nat) (strs : List Str) (sep : Str)
    (h : st.heap.lists[i]? = some (strs.map .str)) :
    callB .stringJoin [.list i, .str sep] st = .inl (.str (joinStr sep strs), st) := by
  have : ∀ l : List Str, (l.map Val.str).mapM Val.str? = some l := by
    intro l
    induction l with
    | nil => rfl
    | cons a r ih => simp only [List.map_cons, List.mapM_cons, Val.str?, ih]; rfl
  simp [callB, h, this]

/-- `_টাইপ(v)` for every value -/
theorem type_builtin (st : St) (v : Val) : callB .type [v] st = .inl (.str (typeName v), st) := by
  simp [callB]

/-- wrong argument counts are errors -/
theorem arity_errors (st : St) :
    (∀ a, ∃ t, callB .stringSplit [a] st = .inr t) ∧ (∀ a b c, ∃ t, callB .stringSplit [a, b, c] st = .inr t) ∧
    (∃ t, callB .stringSplit [] st = .inr t) ∧
    (∀ a, ∃ t, callB .stringJoin [a] st = .inr t) ∧ (∀ a b c, ∃ t, callB .stringJoin [a, b, c] st = .inr t) ∧
    (∃ t, callB .type [] st = .inr t) ∧ (∀ a b, ∃ t, callB .type [a, b] st = .inr t) := by
  simp [callB]

/-- wrong argument types are errors -/
theorem type_errors (st : St) (a b : Val) :
    ((∀ s, a ≠ .str s) ∨ (∀ s, b ≠ .str s) → ∃ t, callB .stringSplit [a, b] st = .inr t) ∧
    ((∀ i, a ≠ .list i) ∨ (∀ s, b ≠ .str s) → ∃ t, callB .stringJoin [a, b] st = .inr t) := by
  constructor
  · intro h
    cases a <;> cases b <;> simp [callB] <;> (rcases h with h | h <;> exact absurd rfl (h _))
  · intro h
    cases a <;> cases b <;> simp [callB] <;> first
      | (rcases h with h | h <;> exact absurd rfl (h _))
      | skip
    all_goals (split <;> simp)

example : splitStr ",a,".toList [','] = [[], ['a'], []] := by decide
example : splitStr [] [','] = [[]] := by decide
example : splitStr ['a','a','a'] ['a','a'] = [[], ['a']] := by decide

/-- **a call spelled like a built-in is the built-in**, whatever else that name is bound to: the scopes are not consulted, so a
    user variable, parameter or function called `_টাইপ`, `_স্ট্রিং-স্প্লিট`, `_স্ট্রিং-জয়েন`, `_স্ট্রিং`, `_সংখ্যা`, … never captures the call
    (the value of the call is what `callBuiltin` computes from the evaluated arguments) -/
theorem builtin_name_calls_builtin (prog : List Stmt) (f : Nat) (cur : List Stmt) (tok : Token) (m0 : Meta) (args : Exprs)
    (s s1 s2 : St) (vs : List Val) (v : Val) (hb : isBuiltin tok.lexeme = true) (hne : tok.lexeme ≠ W.fnError)
    (ha : evalList prog f cur args s = .ok (vs, s1)) (hf : callBuiltin tok.lexeme vs s1 = .inl (v, s2)) :
    evalCall prog (f+1) cur (.var tok m0) args s = .ok (v, s2) := by
  have h1 : (tok.lexeme == W.fnError) = false := by simpa using hne
  simp [evalCall, stripGroups, hb, ha, h1, hf]

/-- the hypotheses are met by the three built-ins of this property -/
example : isBuiltin W.fnType = true ∧ isBuiltin W.fnStringSplit = true ∧ isBuiltin W.fnStringJoin = true ∧ W.fnType ≠ W.fnError := by decide

end C17
end Pakhi
