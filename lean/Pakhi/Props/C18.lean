/-
  C18 — output is exactly what the executed print statements denote, in order.

  `render` is the one recursive value renderer as a pure function of the heap: numbers as in C09,
  সত্য / মিথ্যা, strings verbatim, `[e1, e2]`, `@{"k":v,}` — recursively, to any depth, shared
  sub-containers at each occurrence.  `print_is_render`: the interpreter's three copies of the
  printing code (`দেখাও`, `_দেখাও`, nested elements) all append exactly `render v` to the output and
  change nothing else; `দেখাও` then appends a newline and `_দেখাও` nothing; printing nil or a
  function is an error that writes nothing; the statements that are not print statements and
  evaluate no expression (`{`, `}`, `লুপ`, `আবার`, `থামাও`, `অথবা`, `ফাং`) leave the output untouched.
  Whole runs: `output_only_grows` — from ANY state, any statement / expression / function body / run, with any
  collection schedule: the output of the resulting state — or, when the run stops with an error, the
  output carried by that error — is the output at the start followed by more text; nothing printed is
  ever lost or reordered, and an error keeps everything printed before it (the C13 clause).  The
  in-order composition over statements is `C19.seq_meaning` + the control refinement of C02–C05.
-/
import Pakhi.Lemmas.Render
import Pakhi.Lemmas.OutMono
import Pakhi.Lemmas.OutFrame

namespace Pakhi
namespace C18

/-- the nested printer appends exactly the rendering of the value and changes nothing else -/
theorem print_is_render (cur : List Stmt) (f : Nat) (v : Val) (s s' : St) (h : printVal cur f v s = .ok s') :
    ∃ t, render s.heap f v = some t ∧ OnlyAppends s s' t := (print_spec cur f).1 v s s' h

/-- `দেখাও v;` appends `render v` and a newline; `_দেখাও v;` appends `render v` and nothing else -/
theorem print_statement (cur : List Stmt) (f : Nat) (eol : Bool) (v : Val) (s s' : St) (h : printTop cur f eol v s = .ok s') :
    ∃ t, render s.heap f v = some t ∧ OnlyAppends s s' (t ++ if eol then ['\n'] else []) := by
  unfold printTop at h
  split at h
  · cases cur <;> simp [stmtErr, mkErr, unexpected, Res.tagOut] at h
  · cases cur <;> simp [stmtErr, mkErr, unexpected, Res.tagOut] at h
  · split at h
    · rename_i s1 hp
      obtain ⟨t, ht, ha⟩ := print_is_render cur f v s s1 hp
      simp at h; subst h
      refine ⟨t, ht, ?_⟩
      cases eol
      · simpa using ha
      · simpa using onlyAppends_trans ha (onlyAppends_emit s1 ['\n'])
    · simp at h
    · simp at h
    · simp at h

/-- printing nil or a function is an error, and nothing is written -/
theorem print_nil_or_func_err (st : Stmt) (rest : List Stmt) (f : Nat) (eol : Bool) (s : St) :
    (∃ e, printTop (st :: rest) f eol .nil s = .err e ∧ e.cls = .type ∧ e.out = s.out) ∧
    (∀ r ps, ∃ e, printTop (st :: rest) f eol (.func r ps) s = .err e ∧ e.cls = .type ∧ e.out = s.out) := by
  constructor
  · simp [printTop, stmtErr, mkErr, Res.tagOut]
  · intro r ps; simp [printTop, stmtErr, mkErr, Res.tagOut]

/-- nested nil / function values are errors too (after the enclosing `[` has been written) -/
theorem nested_nil_or_func_err (st : Stmt) (rest : List Stmt) (f : Nat) (s : St) :
    (∃ e, printVal (st :: rest) (f+1) .nil s = .err e ∧ e.cls = .runtime) ∧
    (∀ r ps, ∃ e, printVal (st :: rest) (f+1) (.func r ps) s = .err e ∧ e.cls = .runtime) := by
  constructor
  · simp [printVal, stmtErr, mkErr, Res.tagOut]
  · intro r ps; simp [printVal, stmtErr, mkErr, Res.tagOut]

/-- scalars: booleans print as সত্য / মিথ্যা, strings verbatim, numbers as their C09 text -/
theorem render_scalars (h : Heap) (f : Nat) :
    render h (f+1) (.bool true) = some W.wTrue ∧ render h (f+1) (.bool false) = some W.wFalse ∧
    (∀ t, render h (f+1) (.str t) = some t) ∧ (∀ n, render h (f+1) (.num n) = toBnNum? n) := by
  simp [render]

/-- a list renders as `[` elements separated by `, ` `]`; a record as `@{` entries `"k":v,` `}` -/
theorem render_containers (h : Heap) (f : Nat) (i : Nat) :
    (∀ l, h.lists[i]? = some l → render h (f+1) (.list i) = (render.renderElems h f l true).map (fun t => '[' :: t ++ [']'])) ∧
    (∀ r, h.records[i]? = some r → render h (f+1) (.record i) = (render.renderEntries h f r).map (fun t => '@' :: '{' :: t ++ ['}'])) ∧
    (∀ first, render.renderElems h (f+1) [] first = some []) ∧
    (∀ x xs first a b, render h f x = some a → render.renderElems h f xs false = some b →
        render.renderElems h (f+1) (x :: xs) first = some ((if first then [] else W.sepCommaSpace) ++ a ++ b)) ∧
    (∀ k x xs a b, render h f x = some a → render.renderEntries h f xs = some b →
        render.renderEntries h (f+1) ((k, x) :: xs) = some ('"' :: k ++ ['"', ':'] ++ a ++ [','] ++ b)) := by
  refine ⟨?_, ?_, ?_, ?_, ?_⟩
  · intro l hl; simp [render, hl]
  · intro r hr; simp [render, hr]
  · intro first; simp [render.renderElems]
  · intro x xs first a b ha hb; simp [render.renderElems, ha, hb]
  · intro k x xs a b ha hb; simp [render.renderEntries, ha, hb]

example : render { lists := [[.bool true, .str ['a']]], freeLists := [], records := [], freeRecords := [], allocCount := 0 } 5 (.list 0)
    = some ('[' :: W.wTrue ++ W.sepCommaSpace ++ ['a'] ++ [']']) := by decide

/-- statements that evaluate no expression never write -/
theorem structural_statements_write_nothing (prog : List Stmt) (f : Nat) (rest cur' : List Stmt) (s s' : St) (m : Meta) :
    (exec prog (f+1) (.blockStart m :: rest) s = .ok (cur', s') → s'.out = s.out) ∧
    (exec prog (f+1) (.blockEnd m :: rest) s = .ok (cur', s') → s'.out = s.out) ∧
    (exec prog (f+1) (.loop m :: rest) s = .ok (cur', s') → s'.out = s.out) ∧
    (exec prog (f+1) (.cont m :: rest) s = .ok (cur', s') → s'.out = s.out) ∧
    (exec prog (f+1) (.brk m :: rest) s = .ok (cur', s') → s'.out = s.out) ∧
    (exec prog (f+1) (.else m :: rest) s = .ok (cur', s') → s'.out = s.out) := by
  refine ⟨?_, ?_, ?_, ?_, ?_, ?_⟩ <;> intro h <;> simp only [exec] at h
  · simp at h; rw [← h.2]
  · split at h
    · cases rest <;> simp [stmtErr, mkErr, unexpected] at h
    · simp at h; rw [← h.2]
  · simp at h; rw [← h.2]
  · split at h
    · simp [stmtErr, mkErr] at h
    · simp at h; rw [← h.2]
  · split at h
    · obtain ⟨c, _, hc⟩ := Res.bind_eq_ok h
      simp at hc; rw [← hc.2]
    · obtain ⟨c, _, hc⟩ := Res.bind_eq_ok h
      simp at hc; rw [← hc.2]
  · split at h
    · simp [stmtErr, mkErr] at h
    · obtain ⟨c, _, hc⟩ := Res.bind_eq_ok h
      simp at hc; rw [← hc.2]
    · simp at h; rw [← h.2]

/-- **the output only grows**, for one statement from any state … -/
theorem output_only_grows_step (prog : List Stmt) (f : Nat) (cur : List Stmt) (s : St) :
    (∀ cur' s', exec prog f cur s = .ok (cur', s') → ∃ t, outText s'.out = outText s.out ++ t) ∧
    (∀ e, exec prog f cur s = .err e → ∃ t, outText e.out = outText s.out ++ t) := by
  have h := (outInv prog f).exec cur s
  constructor
  · intro cur' s' hx; rw [hx] at h; exact h
  · intro e hx; rw [hx] at h; exact h

/-- … for an expression (with all the calls it makes) … -/
theorem output_only_grows_eval (prog : List Stmt) (f : Nat) (cur : List Stmt) (e : Expr) (s : St) :
    (∀ v s', eval prog f cur e s = .ok (v, s') → ∃ t, outText s'.out = outText s.out ++ t) ∧
    (∀ er, eval prog f cur e s = .err er → ∃ t, outText er.out = outText s.out ++ t) := by
  have h := (outInv prog f).eval cur e s
  constructor
  · intro v s' hx; rw [hx] at h; exact h
  · intro er hx; rw [hx] at h; exact h

/-- … and for whole runs under any collection schedule: the final output, or the output reported with the error that
    stopped the run, extends the output at the start -/
theorem output_only_grows (prog : List Stmt) (g : GcMode) (f k : Nat) (cur : List Stmt) (s : St) :
    (∀ s', runLoop prog g f k cur s = .ok s' → ∃ t, outText s'.out = outText s.out ++ t) ∧
    (∀ e, runLoop prog g f k cur s = .err e → ∃ t, outText e.out = outText s.out ++ t) := by
  have h := runLoop_out prog g f k cur s
  constructor
  · intro s' hx; rw [hx] at h; exact h
  · intro e hx; rw [hx] at h; exact h


/-- **a print statement as a whole**: `দেখাও e;` evaluates `e` (which may print through the functions it calls), then appends
    exactly the rendering of the value and a newline (nothing for `_দেখাও`), changes nothing else, and continues with the next
    statement -/
theorem print_statement_whole (prog : List Stmt) (f : Nat) (e : Expr) (m : Meta) (rest cur' : List Stmt) (s s' : St)
    (h : exec prog (f+1) (.print e m :: rest) s = .ok (cur', s')) :
    cur' = rest ∧ ∃ v s1 t, eval prog f (.print e m :: rest) e s = .ok (v, s1) ∧ render s1.heap f v = some t ∧
      OnlyAppends s1 s' (t ++ ['\n']) := by
  simp only [exec] at h
  obtain ⟨⟨v, s1⟩, h1, h2⟩ := Res.bind_eq_ok h
  obtain ⟨s2, h3, h4⟩ := Res.bind_eq_ok h2
  simp at h4; obtain ⟨rfl, rfl⟩ := h4
  obtain ⟨t, ht, ha⟩ := print_statement _ f true v s1 s2 h3
  exact ⟨rfl, v, s1, t, h1, ht, by simpa using ha⟩

theorem printNoEOL_statement_whole (prog : List Stmt) (f : Nat) (e : Expr) (m : Meta) (rest cur' : List Stmt) (s s' : St)
    (h : exec prog (f+1) (.printNoEOL e m :: rest) s = .ok (cur', s')) :
    cur' = rest ∧ ∃ v s1 t, eval prog f (.printNoEOL e m :: rest) e s = .ok (v, s1) ∧ render s1.heap f v = some t ∧
      OnlyAppends s1 s' t := by
  simp only [exec] at h
  obtain ⟨⟨v, s1⟩, h1, h2⟩ := Res.bind_eq_ok h
  obtain ⟨s2, h3, h4⟩ := Res.bind_eq_ok h2
  simp at h4; obtain ⟨rfl, rfl⟩ := h4
  obtain ⟨t, ht, ha⟩ := print_statement _ f false v s1 s2 h3
  exact ⟨rfl, v, s1, t, h1, ht, by simpa using ha⟩
/-- **output is write-only**: nothing ever reads what has been printed.  A run started with older output `b` underneath what `s`
    already holds behaves exactly like the run started from `s` — the same statements, values, heap, scopes, file system, fuel, the
    same error — and ends with the same new output on top of `b`; for every program, state, collection schedule and fuel.
    (`St.under b` puts `b` under the output of a state, `Res.under` under the output of the final state or of the error.) -/
theorem output_is_write_only (prog : List Stmt) (b : List Out) (g : GcMode) (f k : Nat) (cur : List Stmt) (s : St) :
    runLoop prog g f k cur (s.under b) = (runLoop prog g f k cur s).under (·.under b) b :=
  runLoop_under prog b g f k cur s

/-- the same for one statement, one expression and one function call -/
theorem output_is_write_only_step (prog : List Stmt) (b : List Out) (f : Nat) (cur : List Stmt) (s : St) :
    exec prog f cur (s.under b) = (exec prog f cur s).under (fun x => (x.1, x.2.under b)) b := (ofInv prog b f).exec cur s
theorem output_is_write_only_eval (prog : List Stmt) (b : List Out) (f : Nat) (cur : List Stmt) (e : Expr) (s : St) :
    eval prog f cur e (s.under b) = (eval prog f cur e s).under (fun x => (x.1, x.2.under b)) b := (ofInv prog b f).eval cur e s

/-- hence what a run adds to the output is computed from a clean slate: the run from `s` is the run from `s` with its output
    emptied, with `s.out` put back underneath -/
theorem new_output_from_clean_slate (prog : List Stmt) (g : GcMode) (f k : Nat) (cur : List Stmt) (s : St) :
    runLoop prog g f k cur s = (runLoop prog g f k cur { s with out := [] }).under (·.under s.out) s.out := by
  have h := runLoop_under prog s.out g f k cur { s with out := [] }
  have e : ({ s with out := [] } : St).under s.out = s := by simp [St.under]
  rw [e] at h; exact h

example : ({ (St.init ⟨[], [], []⟩) with out := [.text ['a']] } : St) = (St.init ⟨[], [], []⟩).under [.text ['a']] := rfl

end C18
end Pakhi
