/-
  C19 — independent program fragments compose: earlier code leaves no hidden state.

  What an earlier fragment can leave behind in the interpreter's control state, and why it cannot
  influence a later fragment:
  * if-flags: only `true` flags can be left (an else-less taken `যদি`, a `ফেরত` or `থামাও` out of a taken
    branch); `if_else_ignore_deeper_flags`: a `যদি` only pushes and an `অথবা` only inspects and pops the
    TOP flag, which is the one the chain's own `যদি` pushed, so the flags underneath — the residue —
    are never read and are returned unchanged; `skipped_rest_ignores_deeper_flags` extends this to whole chains;
  * loop stack: a `থামাও` pops exactly its own loop (C03) and a call cuts the stack back to its height at
    the call (C05), so a finished fragment leaves the loop stack as it found it;
  * scopes: blocks, loops and calls restore the scope height (C03, C04, C05);
  * heap: discarded containers are unreachable and a collection never changes reachable data (C07).
  Composition (refinement): `seq_meaning` — the structured meaning of `P1; P2` is the meaning of `P1`
  and, when that ends normally, the meaning of `P2` started in the state `P1` left; with
  `C02.whole_program` this holds for the flat runs.  `fragment_leaves_frames` — a fragment that ends
  normally leaves the loop stack and scope depth unchanged and at most some `true` flags on the flag stack,
  which no later statement reads (`if_else_ignore_deeper_flags`).  What remains for the full `compose`
  statement (P2's *output* from P1's end state equals P2's output from the initial state when they share
  no names) is a relational invariance of the evaluator under adding unrelated bindings and under the
  renaming of arena indexes; it is decided by the C19 metamorphic check (three runs per pair).
  The full statement is in fact FALSE of the code for one kind of P2 (KNOWN-FINDING C19-stray-else): the flag an
  else-less taken `যদি` leaves is read by a P2 that *begins* with a stray `অথবা` — alone that P2 is the error
  "অথবা without যদি".  `stray_else_observes_flag_residue` proves it of the model with a concrete witness (replayed on
  the implementation by the check); "no later statement reads the residue" is therefore stated for chains that push
  their own flag first (`if_else_ignore_deeper_flags`), which is every chain of a well-formed fragment.
-/
import Pakhi.Props.C02
import Pakhi.Lemmas.FrameInv
import Pakhi.Lemmas.OutFrame
import Pakhi.Lemmas.Relabel5
import Pakhi.Lemmas.FrameX5
import Pakhi.Lemmas.FrameX6

namespace Pakhi
namespace C19

/-- a fresh interpreter is neutral: no loops, no flags, one (root) scope, empty heap -/
theorem init_neutral (w : World) :
    (St.init w).loops = [] ∧ (St.init w).flags = [] ∧ (St.init w).scopes.length = 1 ∧ (St.init w).heap = Heap.empty ∧ (St.init w).out = [] := by
  simp [St.init]

/-- a `যদি` never reads the flag stack: it only pushes (at most one flag) on top of whatever is there -/
theorem if_ignores_flags (prog : List Stmt) (f : Nat) (c : Expr) (m : Meta) (s s1 : St) (b : Bool) (body : SBlock) (r : List Stmt)
    (hb : body.WF) (hc : eval prog f (body.flatten ++ r) c s = .ok (.bool b, s1)) :
    ∃ cur' top, exec prog (f+1) (.if c m :: (body.flatten ++ r)) s = .ok (cur', { s1 with flags := top ++ s1.flags }) ∧ top.length ≤ 1 := by
  cases b with
  | true => exact ⟨_, [true], C02.if_true prog f c m _ s s1 hc, by simp⟩
  | false =>
    have h := C02.if_false prog f c m body r s s1 hb hc
    cases r with
    | nil => exact ⟨[], [], by simpa using h, by simp⟩
    | cons st t =>
      cases st
      case «else» em => exact ⟨_, [false], by simpa using h, by simp⟩
      all_goals exact ⟨_, [], by simpa using h, by simp⟩

/-- an `অথবা` inspects and pops only the top flag: what it does is a function of that flag and of the code alone
    (`r`), and whatever residue `base` lies underneath is handed on unchanged -/
theorem else_ignores_deeper_flags (prog : List Stmt) (f : Nat) (em : Meta) (rest : List Stmt) (s : St) (top : Bool) :
    ∃ r : Res (List Stmt × List Bool), ∀ base : List Bool,
      exec prog (f+1) (.else em :: rest) { s with flags := top :: base } =
        (match r with
         | .ok (cur', k) => .ok (cur', { s with flags := k ++ base })
         | .err e => .err e
         | .panic p => .panic p
         | .fuel => .fuel) := by
  cases top with
  | false => exact ⟨.ok (rest, []), fun base => by simp [exec]⟩
  | true =>
    cases hs : skipBlock rest 0 with
    | ok c =>
      cases c with
      | nil => exact ⟨.ok ([], []), fun base => by simp [exec, skipBlockInIf, hs, Res.tagOut]⟩
      | cons st t =>
        by_cases he : ∃ m2, st = .else m2
        · obtain ⟨m2, rfl⟩ := he
          exact ⟨.ok (.else m2 :: t, [true]), fun base => by simp [exec, skipBlockInIf, hs, Res.tagOut]⟩
        · refine ⟨.ok (st :: t, []), fun base => ?_⟩
          cases st <;> first | exact absurd ⟨_, rfl⟩ he | simp [exec, skipBlockInIf, hs, Res.tagOut]
    | err e => exact ⟨.err { e with out := s.out }, fun base => by simp [exec, skipBlockInIf, hs, Res.tagOut]⟩
    | panic p => exact ⟨.panic p, fun base => by simp [exec, skipBlockInIf, hs, Res.tagOut]⟩
    | fuel => exact ⟨.fuel, fun base => by simp [exec, skipBlockInIf, hs, Res.tagOut]⟩

/-- finishing a loop with `থামাও` leaves the loop stack exactly as it was before the `লুপ` (see C03) -/
theorem loop_leaves_no_residue (prog : List Stmt) (f : Nat) (lm bm cm : Meta) (c : Closing) (after body_rest : List Stmt) (s : St)
    (hc : c.WF) :
    ∃ s1, exec prog (f+1) (.loop lm :: body_rest) s = .ok (body_rest, s1) ∧ s1.loops = { start := body_rest, envs := s.scopes.length } :: s.loops ∧
      ∀ s2 : St, s2.loops = s1.loops → s2.scopes.length = s.scopes.length + c.depth →
        ∃ s3, exec prog (f+1) (.brk bm :: (c.flatten ++ (.cont cm :: after))) s2 = .ok (after, s3) ∧
          s3.loops = s.loops ∧ s3.scopes.length = s.scopes.length := by
  refine ⟨{ s with loops := { start := body_rest, envs := s.scopes.length } :: s.loops }, by simp [exec], rfl, ?_⟩
  intro s2 hl hs
  have hd : s2.scopes.length - s.scopes.length = c.depth := by omega
  refine ⟨{ s2 with scopes := s2.scopes.drop c.depth, loops := s.loops }, ?_, rfl, ?_⟩
  · simp only [exec, hl, hd, breakScan_closing bm cm c after hc]
    simp [Res.tagOut]
  · simp; omega

/-- the end of a program is recognised whatever is left on the loop and flag stacks -/
theorem end_marker_ignores_residue (prog : List Stmt) (g : GcMode) (f k : Nat) (m : Meta) (rest : List Stmt) (s : St) :
    runLoop prog g (f+1) k (.eos m :: rest) s = .ok s := by simp [runLoop]


/-- the meaning of `P1; P2` -/
theorem seq_meaning (prog : List Stmt) (G : Nat) (p1 p2 : SList) (k : List Stmt) (s : St) :
    sList prog G (p1.append p2) k s =
      (sList prog G p1 (p2.flatten ++ k) s).bind fun x =>
        match x.1 with
        | .normal => sList prog G p2 k x.2
        | sig => .ok (sig, x.2) := sList_append G p1 p2 k s

/-- the flat code of `P1; P2` is the code of `P1` followed by the code of `P2` -/
theorem seq_code (p1 p2 : SList) : (p1.append p2).flatten = p1.flatten ++ p2.flatten := SList.flatten_append p1 p2

/-- a statement that ends normally leaves no control residue except `true` flags: loop stack and scope depth as before -/
theorem fragment_leaves_frames {prog : List Stmt} {α : Type} (h : Structured prog) (D : Driver prog α) (t : SStmt) (F : Nat)
    (k : List Stmt) (s s' : St) (r : Res α) (hw : t.WF) (hc : t.Closed false) (hk : notElse k)
    (hsuf : IsSuffixOf (t.flatten ++ k) prog) (hs : StOK (GoodFn prog) prog s) (hrun : D.run F (t.flatten ++ k) s = r) (hr : r ≠ .fuel)
    (hsem : sStmt prog F t k s = .ok (.normal, s')) :
    s'.loops = s.loops ∧ s'.scopes.length = s.scopes.length ∧ ∃ j, s'.flags = List.replicate j true ++ s.flags := by
  have := stmt_refines h D t F k s none false r hw hc hk rfl hsuf hs hrun hr
  rw [hsem] at this
  exact ⟨this.2.1.loops, this.2.1.depth, this.2.1.flags⟩

/-! ### The one observable residue (KNOWN-FINDING C19-stray-else) -/

private def m0 : Meta := ⟨1, []⟩
private def w0 : World := { fs := [], stdin := [], platform := [] }
/-- P1 = `যদি সত্য { } দেখাও "k";` -/
def strayP1 : List Stmt := [.if (.bool true m0) m0, .blockStart m0, .blockEnd m0, .print (.str ['k'] m0) m0]
/-- P2 = `অথবা { দেখাও "x"; } দেখাও "g";` -/
def strayP2 : List Stmt := [.else m0, .blockStart m0, .print (.str ['x'] m0) m0, .blockEnd m0, .print (.str ['g'] m0) m0]
def endOf (prog : List Stmt) : Res St := runLoop (prog ++ [.eos m0]) .never 100 0 (prog ++ [.eos m0]) (St.init w0)

/-- **the compose statement fails for a fragment that begins with a stray `অথবা`**: alone it is an error, after an
    else-less taken conditional it is taken for that conditional's else and skipped — the run ends normally and prints
    what follows.  (Concrete witness, kernel-evaluated; the same two programs are case `C19-stray-else` of the check.) -/
theorem stray_else_observes_flag_residue :
    (match endOf strayP2 with | .err e => e.msg == "else-without-if".toList | _ => false) = true ∧
    (match endOf strayP1 with | .ok s => s.out.length == 2 | _ => false) = true ∧
    (match endOf (strayP1 ++ strayP2) with | .ok s => s.out.length == 4 | _ => false) = true := by decide

/-- **what the earlier fragment printed cannot influence the later one**: running the rest of a program with P1's output `b` already
    written gives exactly the run without it, with `b` underneath — so the text a fragment adds is the text it prints on its own
    (the output half of the compose statement; states equal otherwise) -/
theorem earlier_output_is_invisible (prog : List Stmt) (b : List Out) (g : GcMode) (f k : Nat) (cur : List Stmt) (s : St) :
    runLoop prog g f k cur (s.under b) = (runLoop prog g f k cur s).under (·.under b) b :=
  runLoop_under prog b g f k cur s

/-- moving code `n` lines down -/
def shiftBy (n : Nat) : Meta → Meta := fun m => ⟨m.line + n, m.file⟩

/-- **a fragment does not depend on where in the file it stands**: the same code written `n` lines further down (after a P1 of `n`
    lines) runs identically — same statements executed, same values, heap, output, collections, fuel — and a located error is the same
    error with its line shifted by `n` (the "error lines shifted by the length of P1" clause) -/
theorem moved_fragment_same_run (n : Nat) (prog : List Stmt) (g : GcMode) (f k : Nat) (cur : List Stmt) (s : St) :
    runLoop (relL (shiftBy n) prog) g f k (relL (shiftBy n) cur) (relSt (shiftBy n) s) =
      (runLoop prog g f k cur s).rel (shiftBy n) (relSt (shiftBy n)) :=
  runLoop_relabel (shiftBy n) prog g f k cur s

/-- … spelled out for the error case -/
theorem moved_fragment_error_line (n : Nat) (prog : List Stmt) (g : GcMode) (f : Nat) (w : World) (e : PErr)
    (h : runLoop prog g f 0 prog (St.init w) = .err e) (hc : e.cls ≠ .unexpected) :
    runLoop (relL (shiftBy n) prog) g f 0 (relL (shiftBy n) prog) (St.init w) = .err { e with line := e.line + n } := by
  have hr := moved_fragment_same_run n prog g f 0 prog (St.init w)
  rw [h, show relSt (shiftBy n) (St.init w) = St.init w from rfl] at hr
  rw [hr]
  have hcls : (e.cls == ErrClass.unexpected) = false := by
    cases hcl : e.cls <;> first | rfl | exact absurd hcl hc
  simp [Res.rel, relErr, hcls, shiftBy]

/-- … and for a normal end: same output, variables and heap -/
theorem moved_fragment_normal_end (n : Nat) (prog : List Stmt) (g : GcMode) (f : Nat) (w : World) (s' : St)
    (h : runLoop prog g f 0 prog (St.init w) = .ok s') :
    ∃ t, runLoop (relL (shiftBy n) prog) g f 0 (relL (shiftBy n) prog) (St.init w) = .ok t ∧
      t.out = s'.out ∧ t.scopes = s'.scopes ∧ t.heap = s'.heap ∧ t.flags = s'.flags ∧ t.world = s'.world := by
  have hr := moved_fragment_same_run n prog g f 0 prog (St.init w)
  rw [h, show relSt (shiftBy n) (St.init w) = St.init w from rfl] at hr
  exact ⟨_, hr, rfl, rfl, rfl, rfl, rfl⟩

/-- **leftover bindings are invisible to code that shares no name with them** (the bindings half of the compose statement): let `X`
    be bindings left in the outermost scope by earlier code — numbers, strings, booleans, nil, functions — and let the program mention
    none of their names.  Then from any state with a non-empty scope stack whose pending loop bodies avoid those names too, the run
    with `X` present is the run without it, with `X` still in place at the end: same statements, values, heap, output, world,
    collections, fuel, and the very same error; for every collection schedule and fuel.  (`TX X` adds `X` in front of the outermost
    scope, `Res.rn` maps the final state of a normal end and leaves errors untouched.) -/
theorem leftover_bindings_are_invisible (X : Scope) (hX : NoRefs X) (prog : List Stmt) (hprog : avL (keysOf X) prog) (g : GcMode)
    (f k : Nat) (cur : List Stmt) (s : St) (hd : Dom (keysOf X) s) (hcur : avL (keysOf X) cur) :
    runLoop prog g f k cur (TX X s) = (runLoop prog g f k cur s).rn (TX X) :=
  runLoop_frameX X hX prog hprog g f k cur s hd hcur

/-- … for a whole program started from the initial state (`X` must not rebind the built-in constant either) -/
theorem fragment_ignores_leftover_bindings (X : Scope) (hX : NoRefs X) (prog : List Stmt) (hprog : avL (keysOf X) prog) (g : GcMode)
    (f : Nat) (w : World) :
    runLoop prog g f 0 prog (TX X (St.init w)) = (runLoop prog g f 0 prog (St.init w)).rn (TX X) :=
  runLoop_frameX X hX prog hprog g f 0 prog (St.init w) ⟨by simp [St.init], by simp [St.init]⟩ hprog

/-- spelled out: same printed text and the same kind of ending -/
theorem fragment_output_ignores_leftover_bindings (X : Scope) (hX : NoRefs X) (prog : List Stmt) (hprog : avL (keysOf X) prog) (g : GcMode)
    (f : Nat) (w : World) :
    (match runLoop prog g f 0 prog (TX X (St.init w)), runLoop prog g f 0 prog (St.init w) with
      | .ok s', .ok s => s'.out = s.out ∧ s'.heap = s.heap ∧ s'.world = s.world
      | .err e', .err e => e' = e
      | .panic p', .panic p => p' = p
      | .fuel, .fuel => True
      | _, _ => False) := by
  rw [fragment_ignores_leftover_bindings X hX prog hprog g f w]
  cases runLoop prog g f 0 prog (St.init w) <;> simp [Res.rn, TX]

/-- non-vacuity: a leftover `ক = ৫` and a program that prints a string -/
example : NoRefs [(['k'], Val.num 0)] ∧ avL (keysOf [(['k'], Val.num 0)]) [Stmt.print (.str ['x'] ⟨1, []⟩) ⟨1, []⟩, .eos ⟨2, []⟩] := by
  refine ⟨?_, ?_⟩
  · intro kv hkv; simp at hkv; subst hkv; exact ⟨fun i h => Val.noConfusion h, fun i h => Val.noConfusion h⟩
  · intro st hst; simp at hst; rcases hst with rfl | rfl <;> simp [avS, avE]

/-- the frame theorem for collection-free runs: here the leftover bindings may hold anything, containers included -/
theorem leftover_bindings_are_invisible_without_collections (X : Scope) (prog : List Stmt) (hprog : avL (keysOf X) prog)
    (f k : Nat) (cur : List Stmt) (s : St) (hd : Dom (keysOf X) s) (hcur : avL (keysOf X) cur) :
    runLoop prog .never f k cur (TX X s) = (runLoop prog .never f k cur s).rn (TX X) :=
  runLoop_frameX_never X prog hprog f k cur s hd hcur

/-- the empty top-level state: one empty scope, nothing printed -/
def bare (w : World) : St := { scopes := [[]], heap := Heap.empty, out := [], loops := [], flags := [], world := w }

theorem init_is_bare_plus_platform (w : World) : St.init w = TX [(platformConst, .str w.platform)] (bare w) := rfl

/-- the state a container-free, residue-free earlier fragment leaves behind: its bindings `X` (on top of the built-in constant) in the
    one top-level scope, its output `o1`, the world as it left it -/
def afterPrefix (X : Scope) (o1 : List Out) (w : World) : St :=
  (TX ((platformConst, .str w.platform) :: X) (bare w)).under o1

/-- **compose, for an earlier fragment that left only scalar / function bindings and output** (same program text for both runs): a
    program that mentions neither the earlier fragment's names nor `_প্ল্যাটফর্ম` ends, when started after that fragment, exactly as when
    started on its own — the same error, or the same final heap and world with the output of the fragment underneath its own output —
    for every collection schedule and fuel.  (What is still missing for the full statement: the earlier fragment's containers (C07
    theory), its flag residue (false in general, `stray_else_observes_flag_residue`), and that the later fragment's code sits inside a
    longer program.) -/
theorem compose_after_scalar_prefix (X : Scope) (hX : NoRefs X) (o1 : List Out) (w : World) (prog : List Stmt)
    (hprog : avL (platformConst :: keysOf X) prog) (g : GcMode) (f : Nat) :
    (match runLoop prog g f 0 prog (afterPrefix X o1 w), runLoop prog g f 0 prog (St.init w) with
      | .ok s', .ok s => s'.out = s.out ++ o1 ∧ s'.heap = s.heap ∧ s'.world = s.world ∧ s'.flags = s.flags ∧ s'.loops = s.loops
      | .err e', .err e => e' = { e with out := e.out ++ o1 }
      | .panic p', .panic p => p' = p
      | .fuel, .fuel => True
      | _, _ => False) := by
  have hX' : NoRefs ((platformConst, Val.str w.platform) :: X) := by
    intro kv hkv
    simp only [List.mem_cons] at hkv
    rcases hkv with rfl | hkv
    · exact ⟨fun i h => Val.noConfusion h, fun i h => Val.noConfusion h⟩
    · exact hX kv hkv
  have hk1 : keysOf ((platformConst, Val.str w.platform) :: X) = platformConst :: keysOf X := rfl
  have hp2 : avL (keysOf ((platformConst, Val.str w.platform) :: X)) prog := by rw [hk1]; exact hprog
  have hp1 : avL (keysOf [(platformConst, Val.str w.platform)]) prog :=
    avL_mono (platformConst :: keysOf X) _ (fun n hn => by simp [keysOf] at hn; simp [hn]) prog hprog
  have hd : Dom (keysOf ((platformConst, Val.str w.platform) :: X)) (bare w) := ⟨by simp [bare], by simp [bare]⟩
  have hd1 : Dom (keysOf [(platformConst, Val.str w.platform)]) (bare w) := ⟨by simp [bare], by simp [bare]⟩
  have hnr1 : NoRefs [(platformConst, Val.str w.platform)] := by
    intro kv hkv; simp at hkv; subst hkv; exact ⟨fun i h => Val.noConfusion h, fun i h => Val.noConfusion h⟩
  -- both runs are the run from the bare state, with different bindings added
  have e1 := runLoop_frameX _ hX' prog hp2 g f 0 prog (bare w) hd hp2
  have e2 := runLoop_frameX _ hnr1 prog hp1 g f 0 prog (bare w) hd1 hp1
  have e3 := runLoop_under prog o1 g f 0 prog (TX ((platformConst, Val.str w.platform) :: X) (bare w))
  rw [afterPrefix, e3, e1, init_is_bare_plus_platform, e2]
  cases runLoop prog g f 0 prog (bare w) <;> simp [Res.rn, Res.under, TX, St.under, PErr.under]

theorem bare_ok (prog : List Stmt) (w : World) : StOK (InProg prog) prog (bare w) :=
  ⟨⟨by simp [bare, Heap.empty], by simp [bare, Heap.empty], by simp [bare, Heap.empty], by simp [bare, Heap.empty]⟩,
   ⟨by simp [bare], by intro sc hsc; simp [bare] at hsc; subst hsc; intro kv hkv; simp at hkv⟩,
   by simp [bare]⟩

/-- **compose, with the later fragment sitting inside the longer program**: `pre` is any earlier code (its statements are part of the
    program the interpreter holds, its function bodies included); the state is the one a container-free, residue-free earlier fragment
    leaves (`afterPrefix`).  The later part `prog` — well-formed, mentioning neither the earlier names nor `_প্ল্যাটফর্ম` — then runs
    inside `pre ++ prog` exactly as `prog` run as a program of its own from the initial state: the same error, or the same final heap,
    world, flags and loops with the earlier output underneath its own; for every collection schedule and fuel.  Together with
    `moved_fragment_same_run` (the later part's lines are shifted by the length of the earlier code) this is the compose statement for
    such earlier fragments, up to how `pre` itself got the interpreter into that state. -/
theorem compose_inside_longer_program (X : Scope) (hX : NoRefs X) (o1 : List Out) (w : World) (pre prog : List Stmt)
    (hwf : progWF prog = true) (hprog : avL (platformConst :: keysOf X) prog) (g : GcMode) (f : Nat) :
    (match runLoop (pre ++ prog) g f 0 prog (afterPrefix X o1 w), runLoop prog g f 0 prog (St.init w) with
      | .ok s', .ok s => s'.out = s.out ++ o1 ∧ s'.heap = s.heap ∧ s'.world = s.world ∧ s'.flags = s.flags ∧ s'.loops = s.loops
      | .err e', .err e => e' = { e with out := e.out ++ o1 }
      | .panic p', .panic p => p' = p
      | .fuel, .fuel => True
      | _, _ => False) := by
  have hX' : NoRefs ((platformConst, Val.str w.platform) :: X) := by
    intro kv hkv
    simp only [List.mem_cons] at hkv
    rcases hkv with rfl | hkv
    · exact ⟨fun i h => Val.noConfusion h, fun i h => Val.noConfusion h⟩
    · exact hX kv hkv
  have hk1 : keysOf ((platformConst, Val.str w.platform) :: X) = platformConst :: keysOf X := rfl
  have hp2 : avL (keysOf ((platformConst, Val.str w.platform) :: X)) prog := by rw [hk1]; exact hprog
  have hp1 : avL (keysOf [(platformConst, Val.str w.platform)]) prog :=
    avL_mono (platformConst :: keysOf X) _ (fun n hn => by simp [keysOf] at hn; simp [hn]) prog hprog
  have hd1 : Dom (keysOf [(platformConst, Val.str w.platform)]) (bare w) := ⟨by simp [bare], by simp [bare]⟩
  have hnr1 : NoRefs [(platformConst, Val.str w.platform)] := by
    intro kv hkv; simp at hkv; subst hkv; exact ⟨fun i h => Val.noConfusion h, fun i h => Val.noConfusion h⟩
  have e1 := runLoop_px _ hX' pre prog hp2 hwf g f 0 prog (bare w) (IsSuffixOf.refl prog) (bare_ok prog w)
  have e2 := runLoop_frameX _ hnr1 prog hp1 g f 0 prog (bare w) hd1 hp1
  have e3 := runLoop_under (pre ++ prog) o1 g f 0 prog (TX ((platformConst, Val.str w.platform) :: X) (bare w))
  rw [afterPrefix, e3, e1, init_is_bare_plus_platform, e2]
  cases runLoop prog g f 0 prog (bare w) <;> simp [Res.rn, Res.under, TX, St.under, PErr.under]

/-- **compose with the line shift**: the later fragment, written `n` lines further down (its locations shifted by `n`) at the end of the
    longer program `pre ++ …`, started in the state a container-free, residue-free earlier fragment leaves, ends like the fragment run as
    a program of its own from line 1 — an error is the same error with its line moved down by `n` and the earlier output under its
    own, a normal end has the same heap, world, flags and loops and the earlier output underneath -/
theorem compose_with_line_shift (n : Nat) (X : Scope) (hX : NoRefs X) (o1 : List Out) (w : World) (pre prog : List Stmt)
    (hwf : progWF prog = true) (hprog : avL (platformConst :: keysOf X) prog) (g : GcMode) (f : Nat) :
    (match runLoop (pre ++ relL (shiftBy n) prog) g f 0 (relL (shiftBy n) prog) (afterPrefix X o1 w), runLoop prog g f 0 prog (St.init w) with
      | .ok s', .ok s => s'.out = s.out ++ o1 ∧ s'.heap = s.heap ∧ s'.world = s.world ∧ s'.flags = s.flags
      | .err e', .err e => e' = { relErr (shiftBy n) e with out := e.out ++ o1 }
      | .panic p', .panic p => p' = p
      | .fuel, .fuel => True
      | _, _ => False) := by
  have h1 := compose_inside_longer_program X hX o1 w pre (relL (shiftBy n) prog)
    (by rw [progWF_rel]; exact hwf) (avL_rel (shiftBy n) _ prog hprog) g f
  have h2 := moved_fragment_same_run n prog g f 0 prog (St.init w)
  rw [show relSt (shiftBy n) (St.init w) = St.init w from rfl] at h2
  rw [h2] at h1
  have ho : ∀ e : PErr, (relErr (shiftBy n) e).out = e.out := by intro e; simp only [relErr]; split <;> rfl
  revert h1
  cases runLoop (pre ++ relL (shiftBy n) prog) g f 0 (relL (shiftBy n) prog) (afterPrefix X o1 w) <;>
    cases runLoop prog g f 0 prog (St.init w) <;> simp only [Res.rel] <;> try exact id
  · intro h; exact ⟨h.1, h.2.1, h.2.2.1, h.2.2.2.1⟩
  · intro h; rw [h, ho]

end C19
end Pakhi
