/-
  C19 — independent program fragments compose: earlier code leaves no hidden state.

  What an earlier fragment can leave behind in the interpreter's control state, and why it cannot
  influence a later fragment:
  * if-flags: only `true` flags can be left (an else-less taken `যদি`, a `ফেরত` or `থামাও` out of a taken
    branch); `if_else_ignore_deeper_flags`: a `যদি` only pushes and an `অথবা` only inspects and pops the
    TOP flag, which is the one the chain's own `যদি` pushed, so the flags underneath — the residue —
    are never read and are returned unchanged; `skipped_rest_ignores_deeper_flags` extends this to whole chains;
  * loop stack: a `থামাও` pops exactly its own loop (C03) and a call cuts the stack back to its height at
    the call (C05), so a finished fragment leaves the loop stack as it found it;
  * scopes: blocks, loops and calls restore the scope height (C03, C04, C05);
  * heap: discarded containers are unreachable and a collection never changes reachable data (C07).
  `compose` itself (output of P1;P2 = output of P1 ++ output of P2) needs the control refinement and
  the renaming invariance of arena indices (DESIGN.md §6); it is decided meanwhile by the C19
  metamorphic check on the implementation (three runs per pair) and against the model.
-/
import Pakhi.Props.C02

namespace Pakhi
namespace C19

/-- a fresh interpreter is neutral: no loops, no flags, one (root) scope, empty heap -/
theorem init_neutral (w : World) :
    (St.init w).loops = [] ∧ (St.init w).flags = [] ∧ (St.init w).scopes.length = 1 ∧ (St.init w).heap = Heap.empty ∧ (St.init w).out = [] := by
  simp [St.init]

/-- a `যদি` never reads the flag stack: it only pushes (at most one flag) on top of whatever is there -/
theorem if_ignores_flags (prog : List Stmt) (f : Nat) (c : Expr) (m : Meta) (s s1 : St) (b : Bool) (body : SBlock) (r : List Stmt)
    (hb : body.WF) (hc : eval prog f (body.flatten ++ r) c s = .ok (.bool b, s1)) :
    ∃ cur' top, exec prog (f+1) (.if c m :: (body.flatten ++ r)) s = .ok (cur', { s1 with flags := top ++ s1.flags }) ∧ top.length ≤ 1 := by
  cases b with
  | true => exact ⟨_, [true], C02.if_true prog f c m _ s s1 hc, by simp⟩
  | false =>
    have h := C02.if_false prog f c m body r s s1 hb hc
    cases r with
    | nil => exact ⟨[], [], by simpa using h, by simp⟩
    | cons st t =>
      cases st
      case «else» em => exact ⟨_, [false], by simpa using h, by simp⟩
      all_goals exact ⟨_, [], by simpa using h, by simp⟩

/-- an `অথবা` inspects and pops only the top flag: what it does is a function of that flag and of the code alone
    (`r`), and whatever residue `base` lies underneath is handed on unchanged -/
theorem else_ignores_deeper_flags (prog : List Stmt) (f : Nat) (em : Meta) (rest : List Stmt) (s : St) (top : Bool) :
    ∃ r : Res (List Stmt × List Bool), ∀ base : List Bool,
      exec prog (f+1) (.else em :: rest) { s with flags := top :: base } =
        (match r with
         | .ok (cur', k) => .ok (cur', { s with flags := k ++ base })
         | .err e => .err e
         | .panic p => .panic p
         | .fuel => .fuel) := by
  cases top with
  | false => exact ⟨.ok (rest, []), fun base => by simp [exec]⟩
  | true =>
    cases hs : skipBlock rest 0 with
    | ok c =>
      cases c with
      | nil => exact ⟨.ok ([], []), fun base => by simp [exec, skipBlockInIf, hs, Res.tagOut]⟩
      | cons st t =>
        by_cases he : ∃ m2, st = .else m2
        · obtain ⟨m2, rfl⟩ := he
          exact ⟨.ok (.else m2 :: t, [true]), fun base => by simp [exec, skipBlockInIf, hs, Res.tagOut]⟩
        · refine ⟨.ok (st :: t, []), fun base => ?_⟩
          cases st <;> first | exact absurd ⟨_, rfl⟩ he | simp [exec, skipBlockInIf, hs, Res.tagOut]
    | err e => exact ⟨.err { e with out := s.out }, fun base => by simp [exec, skipBlockInIf, hs, Res.tagOut]⟩
    | panic p => exact ⟨.panic p, fun base => by simp [exec, skipBlockInIf, hs, Res.tagOut]⟩
    | fuel => exact ⟨.fuel, fun base => by simp [exec, skipBlockInIf, hs, Res.tagOut]⟩

/-- finishing a loop with `থামাও` leaves the loop stack exactly as it was before the `লুপ` (see C03) -/
theorem loop_leaves_no_residue (prog : List Stmt) (f : Nat) (lm bm cm : Meta) (c : Closing) (after body_rest : List Stmt) (s : St)
    (hc : c.WF) :
    ∃ s1, exec prog (f+1) (.loop lm :: body_rest) s = .ok (body_rest, s1) ∧ s1.loops = { start := body_rest, envs := s.scopes.length } :: s.loops ∧
      ∀ s2 : St, s2.loops = s1.loops → s2.scopes.length = s.scopes.length + c.depth →
        ∃ s3, exec prog (f+1) (.brk bm :: (c.flatten ++ (.cont cm :: after))) s2 = .ok (after, s3) ∧
          s3.loops = s.loops ∧ s3.scopes.length = s.scopes.length := by
  refine ⟨{ s with loops := { start := body_rest, envs := s.scopes.length } :: s.loops }, by simp [exec], rfl, ?_⟩
  intro s2 hl hs
  have hd : s2.scopes.length - s.scopes.length = c.depth := by omega
  refine ⟨{ s2 with scopes := s2.scopes.drop c.depth, loops := s.loops }, ?_, rfl, ?_⟩
  · simp only [exec, hl, hd, breakScan_closing bm cm c after hc]
    simp [Res.tagOut]
  · simp; omega

/-- the end of a program is recognised whatever is left on the loop and flag stacks -/
theorem end_marker_ignores_residue (prog : List Stmt) (g : GcMode) (f k : Nat) (m : Meta) (rest : List Stmt) (s : St) :
    runLoop prog g (f+1) k (.eos m :: rest) s = .ok s := by simp [runLoop]

end C19
end Pakhi
