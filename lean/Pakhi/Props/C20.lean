/-
  C20 — file and console built-ins agree with the file system and stdin.

  The operating system is a MODEL here (`World`: an abstract file tree and an input stream), so this
  is the property the technique reaches most weakly: the theorems cover the algebra of the abstract
  tree and the decision logic of the seven wrappers (argument checking, error for every failing
  case, results); agreement of the abstract tree with the real file system and with real stdin is
  established by the C20 correspondence runs only (DESIGN.md §4 C20, "partial").
-/
import Pakhi.Model.Interp

namespace Pakhi
namespace C20

theorem find_map_replace (e0 : FsEntry) (p : Str) (hp : e0.path = p) : ∀ (l : List FsEntry), l.any (·.path == p) = true →
    (l.map (fun x => if x.path == p then e0 else x)).find? (·.path == p) = some e0
  | [], h => by simp at h
  | e :: r, h => by
      by_cases he : (e.path == p) = true
      · have he' : e.path = p := by simpa using he
        simp [List.find?, he', hp]
      · have hr : r.any (·.path == p) = true := by simpa [he] using h
        have := find_map_replace e0 p hp r hr
        simp only [List.map_cons, he, Bool.false_eq_true, if_false, List.find?_cons]
        exact this

theorem find_after_write (w w' : World) (p : Str) (s : Str) (h : w.writeFile p s = some w') :
    w'.find? p = some { path := p, isDir := false, content := some s, nameOk := true } := by
  unfold World.writeFile at h
  split at h
  · simp at h
  · by_cases hex : w.fs.any (·.path == p) = true
    · simp only [hex, if_true] at h
      injection h with h; subst h
      exact find_map_replace { path := p, isDir := false, content := some s, nameOk := true } p rfl w.fs hex
    · simp only [hex, Bool.false_eq_true, if_false] at h
      simp at h; subst h
      simp only [World.find?]
      have : w.fs.find? (fun x => x.path == p) = none := by
        simp only [List.find?_eq_none]
        intro x hx hk; apply hex; simp only [List.any_eq_true]; exact ⟨x, hx, hk⟩
      simp [List.find?_append, this]

/-- `_রাইট-ফাইল(p, s)` followed by `_রিড-ফাইল(p)` returns `s` exactly, for any text, and replaces earlier content -/
theorem write_read (w w' : World) (p : Str) (s : Str) (h : w.writeFile p s = some w') : w'.readFile p = some s := by
  simp [World.readFile, find_after_write w w' p s h]

/-- a second write replaces the first -/
theorem write_write_read (w w1 w2 : World) (p : Str) (s1 s2 : Str) (_h1 : w.writeFile p s1 = some w1)
    (h2 : w1.writeFile p s2 = some w2) : w2.readFile p = some s2 := write_read w1 w2 p s2 h2

/-- after `_ডিলিট-ফাইল(p)` a read of `p` is an error -/
theorem delete_then_read (w w' : World) (p : Str) (h : w.deleteFile p = some w') : w'.readFile p = none := by
  unfold World.deleteFile at h
  split at h
  · split at h
    · simp at h
    · simp at h; subst h
      have : (w.fs.filter (fun x => x.path != p)).find? (fun x => x.path == p) = none := by
        simp only [List.find?_eq_none, List.mem_filter]
        intro x hx hk; simp at hx; simp at hk; exact hx.2 hk
      simp [World.readFile, World.find?, this]
  · simp at h

/-- deleting a missing file or a directory is an error -/
theorem delete_invalid (w : World) (p : Str) :
    (w.find? p = none → w.deleteFile p = none) ∧ (∀ e, w.find? p = some e → e.isDir = true → w.deleteFile p = none) := by
  constructor
  · intro h; simp [World.deleteFile, h]
  · intro e h hd; simp [World.deleteFile, h, hd]

/-- reading a missing path, a directory, or content that is not valid UTF-8 is an error -/
theorem read_failures (w : World) (p : Str) :
    (w.find? p = none → w.readFile p = none) ∧
    (∀ e, w.find? p = some e → e.isDir = true → w.readFile p = none) ∧
    (∀ e, w.find? p = some e → e.content = none → w.readFile p = none) := by
  refine ⟨?_, ?_, ?_⟩
  · intro h; simp [World.readFile, h]
  · intro e h hd; simp [World.readFile, h, hd]
  · intro e h hc; simp [World.readFile, h, hc]

/-- writing where the parent is no directory, or onto a directory, is an error -/
theorem write_failures (w : World) (p s : Str) (h : w.isDir (World.parentOf p) = false ∨ w.isDir p = true) :
    w.writeFile p s = none := by
  unfold World.writeFile
  rcases h with h | h <;> simp [h]

/-- `_ফাইল-নাকি-ডাইরেক্টরি` reports the kind of an existing path and fails on a missing one -/
theorem file_or_dir (w : World) (p : Str) (hp : p ≠ ['/']) :
    (∀ e, w.find? p = some e → w.fileOrDir p = some (!e.isDir)) ∧ (w.find? p = none → w.fileOrDir p = none) := by
  have : (p == ['/']) = false := by simpa using hp
  constructor
  · intro e h; simp [World.fileOrDir, this, h]
  · intro h; simp [World.fileOrDir, this, h]

/-- `_রিড-ডাইরেক্টরি` fails on a non-directory and on a directory holding an entry whose name is not valid UTF-8 -/
theorem read_dir_failures (w : World) (p : Str) :
    (w.isDir p = false → w.readDir p = none) ∧
    (w.isDir p = true → (∃ e ∈ w.children p, e.nameOk = false) → w.readDir p = none) := by
  constructor
  · intro h; simp [World.readDir, h]
  · intro h ⟨e, he, hn⟩
    simp only [World.readDir, h, Bool.not_true, Bool.false_eq_true, if_false]
    have : (w.children p).all (·.nameOk) = false := by
      cases hall : (w.children p).all (·.nameOk) with
      | false => rfl
      | true => simp only [List.all_eq_true] at hall; simp [hall e he] at hn
    simp [this]

/-- `_রিড-ডাইরেক্টরি` returns exactly one name per entry of the directory -/
theorem read_dir_names (w : World) (p : Str) (names : List Str) (h : w.readDir p = some names) :
    names.length = (w.children p).length ∧ w.isDir p = true := by
  by_cases hd : w.isDir p = true
  · by_cases ha : (w.children p).all (·.nameOk) = true
    · simp [World.readDir, hd, ha] at h; subst h; simp [hd]
    · simp [World.readDir, hd, ha] at h
  · simp [World.readDir, hd] at h

/-- `_ডিলিট-ডাইরেক্টরি` removes the directory with everything below it -/
theorem delete_dir_recursive (w w' : World) (p : Str) (h : w.deleteDirAll p = some w') :
    w'.find? p = none ∧ ∀ q, World.isUnder p q = true → w'.find? q = none := by
  unfold World.deleteDirAll at h
  split at h
  · split at h
    · simp at h; subst h
      constructor
      · simp only [World.find?, List.find?_eq_none, List.mem_filter]
        intro x hx hk; simp at hx hk; exact hx.2.1 hk
      · intro q hq
        simp only [World.find?, List.find?_eq_none, List.mem_filter]
        intro x hx hk; simp at hx hk; subst hk; simp [hq] at hx
    · simp at h
  · simp at h

/-- `_রিড-লাইন()` returns the next line without its terminator and without trailing blanks, the empty
    string at end of input, and consumes exactly that line -/
theorem read_line (w : World) :
    (w.readLine).1 = World.trimEnd (w.stdin.takeWhile (· != '\n')) ∧
    (w.readLine).2.stdin = (w.stdin.dropWhile (· != '\n')).drop 1 ∧ (w.readLine).2.fs = w.fs := by
  simp [World.readLine]

theorem read_line_eof (w : World) (h : w.stdin = []) : (w.readLine).1 = [] := by
  simp [World.readLine, h, World.trimEnd]

/-- every file-system failure reaches the program as an error of the built-in, never a panic: the
    wrappers return `.inr` exactly when the tree operation fails -/
theorem fs_fault_is_err (s : St) (p c : Str) :
    (s.world.readFileP p = none → ∃ t, callB .readFile [.str p] s = .inr t) ∧
    (s.world.writeFileP p c = none → ∃ t, callB .writeFile [.str p, .str c] s = .inr t) ∧
    (s.world.deleteFileP p = none → ∃ t, callB .deleteFile [.str p] s = .inr t) ∧
    (s.world.createDirAllP p = none → ∃ t, callB .createDir [.str p] s = .inr t) ∧
    (s.world.readDirP p = none → ∃ t, callB .readDir [.str p] s = .inr t) ∧
    (s.world.deleteDirAllP p = none → ∃ t, callB .deleteDir [.str p] s = .inr t) ∧
    (s.world.fileOrDirP p = none → ∃ t, callB .fileOrDir [.str p] s = .inr t) := by
  refine ⟨?_, ?_, ?_, ?_, ?_, ?_, ?_⟩ <;> intro h <;> simp [callB, h]

/-- and succeed with the documented result otherwise -/
theorem fs_success (s : St) (p c : Str) :
    (∀ t, s.world.readFileP p = some t → callB .readFile [.str p] s = .inl (.str t, s)) ∧
    (∀ w', s.world.writeFileP p c = some w' → callB .writeFile [.str p, .str c] s = .inl (.bool true, { s with world := w' })) ∧
    (∀ w', s.world.deleteFileP p = some w' → callB .deleteFile [.str p] s = .inl (.bool true, { s with world := w' })) ∧
    (∀ w', s.world.createDirAllP p = some w' → callB .createDir [.str p] s = .inl (.bool true, { s with world := w' })) ∧
    (∀ w', s.world.deleteDirAllP p = some w' → callB .deleteDir [.str p] s = .inl (.bool true, { s with world := w' })) := by
  refine ⟨?_, ?_, ?_, ?_, ?_⟩ <;> intro x h <;> simp [callB, h]

/-! ### Path texts: the kernel's walk decides, not the text -/

/-- a path text whose walk fails makes every reading, writing and deleting built-in fail -/
theorem unresolvable_path_fails (w : World) (p c : Str) (h : w.resolve p = none) :
    w.readFileP p = none ∧ w.writeFileP p c = none ∧ w.deleteFileP p = none ∧ w.readDirP p = none ∧
    w.deleteDirAllP p = none ∧ w.fileOrDirP p = none := by
  simp [World.readFileP, World.writeFileP, World.deleteFileP, World.readDirP, World.deleteDirAllP, World.fileOrDirP, h]

/-- and a path text that resolves behaves exactly like the clean path it denotes -/
theorem resolvable_path_is_its_target (w : World) (p q c : Str) (h : w.resolve p = some q) :
    w.readFileP p = w.readFile q ∧ w.writeFileP p c = w.writeFile q c ∧ w.deleteFileP p = w.deleteFile q ∧
    w.readDirP p = w.readDir q ∧ w.deleteDirAllP p = w.deleteDirAll q ∧ w.fileOrDirP p = w.fileOrDir q := by
  simp [World.readFileP, World.writeFileP, World.deleteFileP, World.readDirP, World.deleteDirAllP, World.fileOrDirP, h]

/-- `x/..` is no detour when `x` is not an existing directory: the walk fails (`missing/../f`, `file.txt/../f`) -/
theorem detour_through_non_directory_fails (w : World) (cur : List Str) (c : Str) (rest : List Str)
    (hc : c ≠ ['.', '.']) (hr : rest ≠ []) (hnd : w.isDir (World.pathOfComps (cur ++ [c])) = false) :
    World.resolveComps w (c :: rest) cur = none := by
  have h1 : (c == ['.', '.']) = false := by simpa using hc
  have h2 : rest.isEmpty = false := by cases rest <;> simp_all
  simp [World.resolveComps, h1, h2, hnd]

/-- through an existing directory `x/..` comes back to where it started -/
theorem detour_through_directory (w : World) (cur : List Str) (c : Str) (rest : List Str)
    (hc : c ≠ ['.', '.']) (hd : w.isDir (World.pathOfComps (cur ++ [c])) = true) :
    World.resolveComps w (c :: ['.', '.'] :: rest) cur = World.resolveComps w rest cur := by
  have h1 : (c == ['.', '.']) = false := by simpa using hc
  simp [World.resolveComps, h1, hd]

example : World.trimEnd "ab \t\r".toList = ['a', 'b'] := by decide

end C20
end Pakhi
