/-
  `Spec.Sem` — the structured (big-step) semantics of Pakhi statements: what a program *tree* means,
  with control decided by the tree and never by scanning a flat statement stream.

  * a block runs its statements in a fresh scope and drops it afterwards;
  * a chain `যদি c₁ {b₁} অথবা যদি c₂ {b₂} … অথবা {bₙ}` evaluates conditions in order and runs exactly
    the block of the first condition that is `সত্য` (the last block if none is and there is a final
    `অথবা`), nothing else;
  * a loop runs its body until a `থামাও` of this loop (not of an inner one) is met; `আবার` inside the
    body starts the next iteration; both leave all blocks opened inside the body;
  * a `ফেরত` statement ends everything up to the enclosing function call (`Sig.ret`);
  * a function definition binds the name (delegated to the flat `exec`, which skips the body).

  Expressions and the simple statements (print / assignment / expression statement) are the flat
  evaluator's (`eval`, `exec`): they contain no control.  The continuation `k` (the flat statements
  that follow) is threaded only because the Rust code locates some errors at "the current
  statement" and a loop record stores its start; it never influences which statement runs.

  The interpreter's two bookkeeping stacks are mirrored so that the refinement theorem
  (`Lemmas/Refine.lean`) is an *equality* of states: `flags` (`previous_if_was_executed`: a chain that
  runs a branch pushes `true`, and pops it again iff it has further branches to skip) and `loops`.
  Fuel `G` bounds loop iterations and is passed unchanged to every `eval` / `exec`.
-/
import Pakhi.Spec.Struct

namespace Pakhi

/-- how a statement ends -/
inductive Sig where
  | normal
  | brk
  | cont
  /-- a `ফেরত` statement became current; `cur` is the flat stream from that statement on -/
  | ret (cur : List Stmt)

/-- pop the chain's flag if the chain has further branches (which get skipped) -/
def popFlagIf (tail : STail) (s : St) : St :=
  match tail with
  | .none => s
  | _ => { s with flags := s.flags.drop 1 }

/-- the iteration of a loop whose body means `body` -/
def sIter (body : St → Res (Sig × St)) : Nat → St → Res (Sig × St)
  | 0, _ => .fuel
  | n+1, s =>
    (body s).bind fun x =>
      match x.1 with
      | .normal | .cont => sIter body n x.2
      | .brk => .ok (.normal, { x.2 with loops := x.2.loops.drop 1 })
      | .ret c => .ok (.ret c, x.2)

mutual
def sStmt (prog : List Stmt) (G : Nat) : SStmt → List Stmt → St → Res (Sig × St)
  | .simple st, k, s =>
    match st with
    | .ret _ _ => .ok (.ret (st :: k), s)
    | _ => (exec prog G (st :: k) s).bind fun x => .ok (.normal, x.2)
  | .block b, k, s => sBlock prog G b k s
  | .ifChain c _ body tail, k, s =>
    (eval prog G (body.flatten ++ (tail.flatten ++ k)) c s).bind fun x =>
      match x.1 with
      | .bool true =>
        (sBlock prog G body (tail.flatten ++ k) { x.2 with flags := true :: x.2.flags }).bind fun y =>
          match y.1 with
          | .normal => .ok (.normal, popFlagIf tail y.2)
          | sig => .ok (sig, y.2)
      | .bool false => sTail prog G tail k x.2
      | _ => (metaErr c.meta .runtime "if-condition-not-boolean").tagOut x.2.out
  | .loop _ body cm, k, s =>
    sIter (fun s => sBlock prog G body (.cont cm :: k) s) G
      { s with loops := { start := body.flatten ++ (.cont cm :: k), envs := s.scopes.length } :: s.loops }
  | .brk _, _, s => .ok (.brk, s)
  | .cont _, _, s => .ok (.cont, s)
  | .funcDef fm hdr hm body re rm, k, s =>
    (exec prog G (.funcDef fm :: .expr hdr hm :: (body.flatten ++ (.ret re rm :: k))) s).bind fun x => .ok (.normal, x.2)

def sBlock (prog : List Stmt) (G : Nat) : SBlock → List Stmt → St → Res (Sig × St)
  | .mk _ ss be, k, s =>
    (sList prog G ss (.blockEnd be :: k) { s with scopes := [] :: s.scopes }).bind fun x =>
      match x.1 with
      | .ret c => .ok (.ret c, x.2)
      | sig => .ok (sig, { x.2 with scopes := x.2.scopes.drop 1 })

def sList (prog : List Stmt) (G : Nat) : SList → List Stmt → St → Res (Sig × St)
  | .nil, _, s => .ok (.normal, s)
  | .cons t ts, k, s =>
    (sStmt prog G t (ts.flatten ++ k) s).bind fun x =>
      match x.1 with
      | .normal => sList prog G ts k x.2
      | sig => .ok (sig, x.2)

def sTail (prog : List Stmt) (G : Nat) : STail → List Stmt → St → Res (Sig × St)
  | .none, _, s => .ok (.normal, s)
  | .else _ body, k, s => sBlock prog G body k s
  | .elseIf _ c _ body tail, k, s =>
    (eval prog G (body.flatten ++ (tail.flatten ++ k)) c s).bind fun x =>
      match x.1 with
      | .bool true =>
        (sBlock prog G body (tail.flatten ++ k) { x.2 with flags := true :: x.2.flags }).bind fun y =>
          match y.1 with
          | .normal => .ok (.normal, popFlagIf tail y.2)
          | sig => .ok (sig, y.2)
      | .bool false => sTail prog G tail k x.2
      | _ => (metaErr c.meta .runtime "if-condition-not-boolean").tagOut x.2.out
end

/-- a whole program `tree; <end>` run at top level: a `ফেরত` outside a function is an error -/
def sTop (prog : List Stmt) (G : Nat) (tree : SList) (em : Meta) (s : St) : Res St :=
  (sList prog G tree [.eos em] s).bind fun x =>
    match x.1 with
    | .ret cur => (stmtErr cur .runtime "debug-statement").tagOut x.2.out
    | _ => .ok x.2

/-- a function body `{ b } ফেরত re;` run by a call: the value of the first `ফেরত` reached -/
def sBody (prog : List Stmt) (G : Nat) (b : SBlock) (re : Expr) (rm : Meta) (k : List Stmt) (s : St) : Res (Val × St) :=
  (sBlock prog G b (.ret re rm :: k) s).bind fun x =>
    match x.1 with
    | .ret (.ret e m :: k') => eval prog G (.ret e m :: k') e x.2
    | _ => eval prog G (.ret re rm :: k) re x.2

end Pakhi
