/-
  Structured programs (DESIGN.md `Spec/Struct`): the statement forms of the language as trees, and
  `flatten`, the flat statement stream the parser produces for them.  The control theorems of
  C02 / C03 / C05 / C19 are stated about `flatten` of arbitrary trees.
-/
import Pakhi.Model.Interp

namespace Pakhi

/-- flat statements that carry no control structure -/
def Stmt.isSimple : Stmt → Bool
  | .print _ _ | .printNoEOL _ _ | .assign _ _ | .expr _ _ | .ret _ _ => true
  | _ => false

mutual
inductive SStmt where
  /-- print, assignment, expression statement, `ফেরত e;` -/
  | simple (s : Stmt)
  | block (b : SBlock)
  /-- `যদি c { body } tail` -/
  | ifChain (c : Expr) (m : Meta) (body : SBlock) (tail : STail)
  /-- `লুপ { body } আবার;` -/
  | loop (lm : Meta) (body : SBlock) (cm : Meta)
  | brk (m : Meta)
  | cont (m : Meta)
  /-- `ফাং header { body } ফেরত e;` -/
  | funcDef (fm : Meta) (hdr : Expr) (hm : Meta) (body : SBlock) (re : Expr) (rm : Meta)
inductive SBlock where
  | mk (bs : Meta) (ss : SList) (be : Meta)
inductive SList where
  | nil
  | cons (s : SStmt) (ss : SList)
/-- what follows the first branch of a chain -/
inductive STail where
  | none
  | elseIf (em : Meta) (c : Expr) (m : Meta) (body : SBlock) (tail : STail)
  | «else» (em : Meta) (body : SBlock)
end

mutual
def SStmt.flatten : SStmt → List Stmt
  | .simple s => [s]
  | .block b => b.flatten
  | .ifChain c m body tail => .if c m :: (body.flatten ++ tail.flatten)
  | .loop lm body cm => .loop lm :: (body.flatten ++ [.cont cm])
  | .brk m => [.brk m]
  | .cont m => [.cont m]
  | .funcDef fm hdr hm body re rm => .funcDef fm :: .expr hdr hm :: (body.flatten ++ [.ret re rm])
def SBlock.flatten : SBlock → List Stmt
  | .mk bs ss be => .blockStart bs :: (ss.flatten ++ [.blockEnd be])
def SList.flatten : SList → List Stmt
  | .nil => []
  | .cons s ss => s.flatten ++ ss.flatten
def STail.flatten : STail → List Stmt
  | .none => []
  | .elseIf em c m body tail => .else em :: .if c m :: (body.flatten ++ tail.flatten)
  | .else em body => .else em :: body.flatten
end

mutual
/-- well-formedness: `simple` holds a simple statement -/
def SStmt.WF : SStmt → Prop
  | .simple s => s.isSimple = true
  | .block b => b.WF
  | .ifChain _ _ body tail => body.WF ∧ tail.WF
  | .loop _ body _ => body.WF
  | .brk _ => True
  | .cont _ => True
  | .funcDef _ _ _ body _ _ => body.WF
def SBlock.WF : SBlock → Prop
  | .mk _ ss _ => ss.WF
def SList.WF : SList → Prop
  | .nil => True
  | .cons s ss => s.WF ∧ ss.WF
def STail.WF : STail → Prop
  | .none => True
  | .elseIf _ _ _ body tail => body.WF ∧ tail.WF
  | .else _ body => body.WF
end

/-- the stream does not continue with an `অথবা` (a chain's tail is complete) -/
def notElse : List Stmt → Prop
  | .else _ :: _ => False
  | _ => True

end Pakhi
