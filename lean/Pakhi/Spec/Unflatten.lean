/-
  `unflatten`: recover the statement tree of a flat program (the inverse of `flatten`), so that the
  hypothesis "the program is the flattening of a well-formed closed tree" of the refinement theorems is
  *computed* for every program the check runs, not assumed.  Soundness (`unflatten_sound`) is proved in
  `Lemmas/Unflatten.lean`; completeness is not needed (a program that is not recognised is reported as
  unstructured and only the flat-model correspondence applies to it).
-/
import Pakhi.Spec.Sem

namespace Pakhi

mutual
/-- statements up to (not including) the first flat statement that cannot start one -/
def uList : Nat → List Stmt → Option (SList × List Stmt)
  | 0, _ => none
  | f+1, l =>
    match uStmt f l with
    | some (t, rest) =>
      match uList f rest with
      | some (ts, rest') => some (.cons t ts, rest')
      | none => none
    | none => some (.nil, l)

def uStmt : Nat → List Stmt → Option (SStmt × List Stmt)
  | 0, _ => none
  | f+1, l =>
    match l with
    | [] => none
    | st :: rest =>
      match st with
      | .print _ _ | .printNoEOL _ _ | .assign _ _ | .expr _ _ | .ret _ _ => some (.simple st, rest)
      | .blockStart _ =>
        match uBlock f l with
        | some (b, rest') => some (.block b, rest')
        | none => none
      | .if c m =>
        match uBlock f rest with
        | some (body, rest1) =>
          match uTail f rest1 with
          | some (tail, rest2) => some (.ifChain c m body tail, rest2)
          | none => none
        | none => none
      | .loop lm =>
        match uBlock f rest with
        | some (body, .cont cm :: rest1) => some (.loop lm body cm, rest1)
        | _ => none
      | .brk m => some (.brk m, rest)
      | .cont m => some (.cont m, rest)
      | .funcDef fm =>
        match rest with
        | .expr hdr hm :: rest1 =>
          match uBlock f rest1 with
          | some (body, .ret re rm :: rest2) => some (.funcDef fm hdr hm body re rm, rest2)
          | _ => none
        | _ => none
      | _ => none

def uBlock : Nat → List Stmt → Option (SBlock × List Stmt)
  | 0, _ => none
  | f+1, l =>
    match l with
    | .blockStart bs :: rest =>
      match uList f rest with
      | some (ss, .blockEnd be :: rest') => some (.mk bs ss be, rest')
      | _ => none
    | _ => none

def uTail : Nat → List Stmt → Option (STail × List Stmt)
  | 0, _ => none
  | f+1, l =>
    match l with
    | .else em :: .if c m :: rest =>
      match uBlock f rest with
      | some (body, rest1) =>
        match uTail f rest1 with
        | some (tail, rest2) => some (.elseIf em c m body tail, rest2)
        | none => none
      | none => none
    | .else em :: rest =>
      match uBlock f rest with
      | some (body, rest1) => some (.else em body, rest1)
      | none => none
    | _ => some (.none, l)
end

mutual
def SStmt.closedB : Bool → SStmt → Bool
  | _, .simple _ => true
  | il, .block b => b.closedB il
  | il, .ifChain _ _ body tail => body.closedB il && tail.closedB il
  | _, .loop _ body _ => body.closedB true
  | il, .brk _ => il
  | il, .cont _ => il
  | _, .funcDef _ _ _ body _ _ => body.closedB false
def SBlock.closedB : Bool → SBlock → Bool
  | il, .mk _ ss _ => ss.closedB il
def SList.closedB : Bool → SList → Bool
  | _, .nil => true
  | il, .cons s ss => s.closedB il && ss.closedB il
def STail.closedB : Bool → STail → Bool
  | _, .none => true
  | il, .elseIf _ _ _ body tail => body.closedB il && tail.closedB il
  | il, .else _ body => body.closedB il
end

/-- the tree of a whole program `tree; <end>` whose `থামাও` / `আবার` all sit inside loops -/
def unflatten (prog : List Stmt) : Option (SList × Meta) :=
  match uList (4 * prog.length + 8) prog with
  | some (tree, [.eos em]) => if tree.closedB false then some (tree, em) else none
  | _ => none

end Pakhi
