/-
  Syntactic well-formedness of a parsed program: the two shape facts the interpreter relies on without
  checking (`key_values.1[i]`, `init_value.unwrap()`).  Executable, so the driver evaluates it on every
  program the model parser produces (it has never been false).
-/
import Pakhi.Model.Interp
namespace Pakhi

/-! ### syntactic well-formedness (what the parser guarantees about the shapes the interpreter indexes blindly) -/

mutual
/-- a record literal has a value for every key -/
def Expr.wf : Expr → Bool
  | .indexing e i _ => e.wf && i.wf
  | .or l r _ => l.wf && r.wf
  | .and l r _ => l.wf && r.wf
  | .equality _ l r _ => l.wf && r.wf
  | .comparison _ l r _ => l.wf && r.wf
  | .addsub _ l r _ => l.wf && r.wf
  | .muldiv _ l r _ => l.wf && r.wf
  | .unary _ r _ => r.wf
  | .call _ args _ => args.wf
  | .list es _ => es.wf
  | .record ks vs _ => decide (ks.length ≤ vs.length) && ks.wf && vs.wf
  | .group e _ => e.wf
  | _ => true
def Exprs.wf : Exprs → Bool
  | .nil => true
  | .cons e es => e.wf && es.wf
end

/-- a re-assignment has a right-hand side -/
def Assignment.wf (a : Assignment) : Bool :=
  (a.kind != .re || a.init.isSome) && a.indexes.all Expr.wf && (match a.init with | some e => e.wf | none => true)

def Stmt.wf : Stmt → Bool
  | .print e _ | .printNoEOL e _ | .expr e _ | .ret e _ | .if e _ => e.wf
  | .assign a _ => a.wf
  | _ => true

def progWF (prog : List Stmt) : Bool := prog.all Stmt.wf

end Pakhi
