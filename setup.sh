#!/bin/sh
# Build the framework from files on disk only (offline): the Lean model + driver + theorem
# modules, the Rust harness against /repo (hooks on), and the pakhi command line tool (hooks off).
set -e
cd "$(dirname "$0")"
export CARGO_NET_OFFLINE=true
mkdir -p scratch evidence replays
python3 tools/srcfacts.py /repo
(cd lean && lake build Pakhi pakhi_model Pakhi.SrcFactsAgree)
(cd lean && for p in 01 02 03 04 05 06 07 08 09 10 11 12 13 14 15 16 17 18 19 20; do echo Pakhi.Props.C$p; done | xargs lake build)
(cd harness && RUSTFLAGS="--cfg pakhi_verif" CARGO_TARGET_DIR="$PWD/target" cargo build --release --offline)
(cd /repo && CARGO_TARGET_DIR=/verif/scratch/pakhi-bin-target cargo build --release --offline --bin pakhi)
echo setup-ok
