-- Spike: flat If/Else/BlockStart/BlockEnd stream with flag stack  vs  structured if-chains.
inductive FS where
  | print (k : Nat) | bstart | bend | iff (c : Bool) | els
  deriving DecidableEq, Repr

structure St where
  flags : List Bool
  depth : Nat
  out : List Nat
  deriving Repr, DecidableEq

inductive R (α : Type) where
  | ok (a : α) | err | panic | fuel
  deriving Repr, DecidableEq

/-- Rust skip_block: scan to the BlockEnd matching the first BlockStart. -/
def skipBlock : Nat → List FS → R (List FS)
  | d, .bstart :: r => skipBlock (d+1) r
  | 0, .bend :: _ => .err
  | 1, .bend :: r => .ok r
  | d+2, .bend :: r => skipBlock (d+1) r
  | d, .print _ :: r => skipBlock d r
  | d, .iff _ :: r => skipBlock d r
  | d, .els :: r => skipBlock d r
  | _, [] => .panic

def startsEls : List FS → Bool | .els :: _ => true | _ => false

def run : Nat → List FS → St → R St
  | 0, _, _ => .fuel
  | _+1, [], st => .ok st
  | n+1, .print k :: r, st => run n r { st with out := st.out ++ [k] }
  | n+1, .bstart :: r, st => run n r { st with depth := st.depth + 1 }
  | n+1, .bend :: r, st => run n r { st with depth := st.depth - 1 }
  | n+1, .iff true :: r, st => run n r { st with flags := true :: st.flags }
  | n+1, .iff false :: r, st =>
    match skipBlock 0 r with
    | .ok r' => if startsEls r' then run n r' { st with flags := false :: st.flags } else run n r' st
    | .err => .err | .panic => .panic | .fuel => .fuel
  | n+1, .els :: r, st =>
    match st.flags with
    | [] => .panic
    | true :: fl =>
      (match skipBlock 0 r with
       | .ok r' => if startsEls r' then run n r' st else run n r' { st with flags := fl }
       | .err => .err | .panic => .panic | .fuel => .fuel)
    | false :: fl => run n r { st with flags := fl }

mutual
inductive S where
  | print (k : Nat)
  | block (ss : SL)
  | chain (c : Bool) (b : SL) (more : BL)      -- যদি c {b} followed by else-ifs / else
inductive SL where
  | nil | cons (s : S) (ss : SL)
inductive BL where
  | none                                        -- no else
  | elseB (b : SL)                              -- অথবা {b}
  | elif (c : Bool) (b : SL) (more : BL)        -- অথবা যদি c {b} ...
end

mutual
def flat : S → List FS
  | .print k => [.print k]
  | .block ss => .bstart :: (flatL ss ++ [.bend])
  | .chain c b more => .iff c :: .bstart :: (flatL b ++ .bend :: flatB more)
def flatL : SL → List FS
  | .nil => []
  | .cons s ss => flat s ++ flatL ss
def flatB : BL → List FS
  | .none => []
  | .elseB b => .els :: .bstart :: (flatL b ++ [.bend])
  | .elif c b more => .els :: .iff c :: .bstart :: (flatL b ++ .bend :: flatB more)
end

mutual
def exec : S → List Nat → List Nat
  | .print k, o => o ++ [k]
  | .block ss, o => execL ss o
  | .chain c b more, o => if c then execL b o else execB more o
def execL : SL → List Nat → List Nat
  | .nil, o => o
  | .cons s ss, o => execL ss (exec s o)
def execB : BL → List Nat → List Nat
  | .none, o => o
  | .elseB b, o => execL b o
  | .elif c b more, o => if c then execL b o else execB more o
end

open S SL BL in
#eval run 100 (flat (.chain true (.cons (.chain true (.cons (.print 1) .nil) (.elseB (.cons (.print 2) .nil))) .nil) (.elif true (.cons (.print 3) .nil) (.elseB (.cons (.print 4) .nil)))) ++ [.print 9]) ⟨[], 0, []⟩
