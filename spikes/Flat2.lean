-- Spike 2: loops with break/continue (planned repair F12: depth-based scan), state-dependent conditions.
inductive FS where
  | print (k : Nat) | inc | bstart | bend | iff (k : Nat) | els | loop | cont | brk
  deriving DecidableEq, Repr

structure St where
  flags : List Bool
  depth : Nat
  out : List Nat
  ctr : Nat
  loops : List (List FS × Nat)
  deriving Repr, DecidableEq

inductive R (α : Type) where
  | ok (a : α) | err | panic | fuel
  deriving Repr, DecidableEq

def skipBlock : Nat → List FS → R (List FS)
  | d, .bstart :: r => skipBlock (d+1) r
  | 0, .bend :: _ => .err
  | 1, .bend :: r => .ok r
  | d+2, .bend :: r => skipBlock (d+1) r
  | d, .print _ :: r => skipBlock d r
  | d, .inc :: r => skipBlock d r
  | d, .iff _ :: r => skipBlock d r
  | d, .els :: r => skipBlock d r
  | d, .loop :: r => skipBlock d r
  | d, .cont :: r => skipBlock d r
  | d, .brk :: r => skipBlock d r
  | _, [] => .panic

/-- repaired Break scan: `d` = blocks of the loop body still open -/
def scanBrk : Nat → List FS → R (List FS)
  | d, .bstart :: r => scanBrk (d+1) r
  | d, .bend :: r => scanBrk (d-1) r
  | 0, .cont :: r => .ok r
  | d+1, .cont :: r => scanBrk (d+1) r
  | d, .print _ :: r => scanBrk d r
  | d, .inc :: r => scanBrk d r
  | d, .iff _ :: r => scanBrk d r
  | d, .els :: r => scanBrk d r
  | d, .loop :: r => scanBrk d r
  | d, .brk :: r => scanBrk d r
  | _, [] => .panic

def startsEls : List FS → Bool | .els :: _ => true | _ => false

def run : Nat → List FS → St → R St
  | 0, _, _ => .fuel
  | _+1, [], st => .ok st
  | n+1, .print k :: r, st => run n r { st with out := st.out ++ [k] }
  | n+1, .inc :: r, st => run n r { st with ctr := st.ctr + 1 }
  | n+1, .bstart :: r, st => run n r { st with depth := st.depth + 1 }
  | n+1, .bend :: r, st => run n r { st with depth := st.depth - 1 }
  | n+1, .iff k :: r, st =>
    if st.ctr < k then run n r { st with flags := true :: st.flags }
    else
      match skipBlock 0 r with
      | .ok r' => if startsEls r' then run n r' { st with flags := false :: st.flags } else run n r' st
      | .err => .err | .panic => .panic | .fuel => .fuel
  | n+1, .els :: r, st =>
    match st.flags with
    | [] => .panic
    | true :: fl =>
      (match skipBlock 0 r with
       | .ok r' => if startsEls r' then run n r' st else run n r' { st with flags := fl }
       | .err => .err | .panic => .panic | .fuel => .fuel)
    | false :: fl => run n r { st with flags := fl }
  | n+1, .loop :: r, st => run n r { st with loops := (r, st.depth) :: st.loops }
  | n+1, .cont :: _, st =>
    match st.loops with
    | [] => .panic
    | (start, d0) :: _ => if st.depth < d0 then .panic else run n start { st with depth := d0 }
  | n+1, .brk :: r, st =>
    match st.loops with
    | [] => .panic
    | (_, d0) :: ls =>
      if st.depth < d0 then .panic else
      match scanBrk (st.depth - d0) r with
      | .ok r' => run n r' { st with depth := d0, loops := ls }
      | .err => .err | .panic => .panic | .fuel => .fuel

mutual
inductive S where
  | print (k : Nat) | inc
  | block (ss : SL)
  | chain (c : Nat) (b : SL) (more : BL)
  | loop (b : SL)
  | brk | cont
inductive SL where
  | nil | cons (s : S) (ss : SL)
inductive BL where
  | none | elseB (b : SL) | elif (c : Nat) (b : SL) (more : BL)
end

mutual
def flat : S → List FS
  | .print k => [.print k]
  | .inc => [.inc]
  | .block ss => .bstart :: (flatL ss ++ [.bend])
  | .chain c b more => .iff c :: .bstart :: (flatL b ++ .bend :: flatB more)
  | .loop b => .loop :: .bstart :: (flatL b ++ [.bend, .cont])
  | .brk => [.brk]
  | .cont => [.cont]
def flatL : SL → List FS
  | .nil => []
  | .cons s ss => flat s ++ flatL ss
def flatB : BL → List FS
  | .none => []
  | .elseB b => .els :: .bstart :: (flatL b ++ [.bend])
  | .elif c b more => .els :: .iff c :: .bstart :: (flatL b ++ .bend :: flatB more)
end

inductive Sig where | normal | brk | cont
  deriving DecidableEq, Repr

structure Sg where
  out : List Nat
  ctr : Nat
  deriving DecidableEq, Repr

-- structured big-step semantics; `none` = out of fuel
mutual
def exec : Nat → S → Sg → Option (Sig × Sg)
  | 0, _, _ => none
  | _+1, .print k, g => some (.normal, { g with out := g.out ++ [k] })
  | _+1, .inc, g => some (.normal, { g with ctr := g.ctr + 1 })
  | n+1, .block ss, g => execL n ss g
  | n+1, .chain c b more, g => if g.ctr < c then execL n b g else execB n more g
  | n+1, .loop b, g =>
    match execL n b g with
    | none => none
    | some (.brk, g') => some (.normal, g')
    | some (_, g') => exec n (.loop b) g'
  | _+1, .brk, g => some (.brk, g)
  | _+1, .cont, g => some (.cont, g)
def execL : Nat → SL → Sg → Option (Sig × Sg)
  | 0, _, _ => none
  | _+1, .nil, g => some (.normal, g)
  | n+1, .cons s ss, g =>
    match exec n s g with
    | none => none
    | some (.normal, g') => execL n ss g'
    | some (sig, g') => some (sig, g')
def execB : Nat → BL → Sg → Option (Sig × Sg)
  | 0, _, _ => none
  | _+1, .none, g => some (.normal, g)
  | n+1, .elseB b, g => execL n b g
  | n+1, .elif c b more, g => if g.ctr < c then execL n b g else execB n more g
end

open S SL BL in
def demo : SL :=
  -- লুপ { যদি ctr<1 {inc; আবার;}  যদি ctr<3 { print ctr-ish; inc } অথবা { থামাও; }  লুপ { থামাও; } আবার;  print 7 } আবার;  print 9
  .cons (.loop (.cons (.chain 1 (.cons .inc (.cons .cont .nil)) .none)
          (.cons (.chain 3 (.cons (.print 1) (.cons .inc .nil)) (.elseB (.cons .brk .nil)))
          (.cons (.loop (.cons .brk .nil)) (.cons (.print 7) .nil)))))
  (.cons (.print 9) .nil)
#eval run 200 (flatL demo) ⟨[], 0, [], 0, []⟩
#eval execL 200 demo ⟨[], 0⟩
