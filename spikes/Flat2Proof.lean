import Flat2

def FC {α} (r : R α) (P : R α → Prop) : Prop := r = .fuel ∨ P r
def AllT (ts : List Bool) : Prop := ∀ t ∈ ts, t = true
theorem allT_nil : AllT [] := by intro t h; cases h
theorem allT_cons {ts} (h : AllT ts) : AllT (true :: ts) := by
  intro t ht; cases ht with | head => rfl | tail _ h' => exact h t h'
theorem allT_app {a b} (ha : AllT a) (hb : AllT b) : AllT (a ++ b) := by
  intro t ht; rcases List.mem_append.mp ht with h | h; exact ha t h; exact hb t h

/-! ### scanning over well-formed code -/
mutual
theorem skip_S (s : S) (d : Nat) (r : List FS) : skipBlock (d+1) (flat s ++ r) = skipBlock (d+1) r := by
  cases s with
  | print k => simp [flat, skipBlock]
  | inc => simp [flat, skipBlock]
  | brk => simp [flat, skipBlock]
  | cont => simp [flat, skipBlock]
  | block ss =>
    simp only [flat, List.cons_append, List.append_assoc, skipBlock]
    rw [skip_L ss (d+1)]; simp [skipBlock]
  | chain c b more =>
    simp only [flat, List.cons_append, List.append_assoc, skipBlock]
    rw [skip_L b (d+1)]; simp only [List.cons_append, skipBlock]
    exact skip_B more d r
  | loop b =>
    simp only [flat, List.cons_append, List.append_assoc, skipBlock]
    rw [skip_L b (d+1)]; simp [skipBlock]
theorem skip_L (ss : SL) (d : Nat) (r : List FS) : skipBlock (d+1) (flatL ss ++ r) = skipBlock (d+1) r := by
  cases ss with
  | nil => simp [flatL]
  | cons s ss => simp only [flatL, List.append_assoc]; rw [skip_S s d, skip_L ss d]
theorem skip_B (m : BL) (d : Nat) (r : List FS) : skipBlock (d+1) (flatB m ++ r) = skipBlock (d+1) r := by
  cases m with
  | none => simp [flatB]
  | elseB b =>
    simp only [flatB, List.cons_append, List.append_assoc, skipBlock]
    rw [skip_L b (d+1)]; simp [skipBlock]
  | elif c b more =>
    simp only [flatB, List.cons_append, List.append_assoc, skipBlock]
    rw [skip_L b (d+1)]; simp only [List.cons_append, skipBlock]
    exact skip_B more d r
end

mutual
theorem scan_S (s : S) (d : Nat) (r : List FS) : scanBrk (d+1) (flat s ++ r) = scanBrk (d+1) r := by
  cases s with
  | print k => simp [flat, scanBrk]
  | inc => simp [flat, scanBrk]
  | brk => simp [flat, scanBrk]
  | cont => simp [flat, scanBrk]
  | block ss =>
    simp only [flat, List.cons_append, List.append_assoc, scanBrk]
    rw [scan_L ss (d+1)]; simp [scanBrk]
  | chain c b more =>
    simp only [flat, List.cons_append, List.append_assoc, scanBrk]
    rw [scan_L b (d+1)]; simp only [List.cons_append, scanBrk, Nat.add_sub_cancel]
    exact scan_B more d r
  | loop b =>
    simp only [flat, List.cons_append, List.append_assoc, scanBrk]
    rw [scan_L b (d+1)]; simp [scanBrk]
theorem scan_L (ss : SL) (d : Nat) (r : List FS) : scanBrk (d+1) (flatL ss ++ r) = scanBrk (d+1) r := by
  cases ss with
  | nil => simp [flatL]
  | cons s ss => simp only [flatL, List.append_assoc]; rw [scan_S s d, scan_L ss d]
theorem scan_B (m : BL) (d : Nat) (r : List FS) : scanBrk (d+1) (flatB m ++ r) = scanBrk (d+1) r := by
  cases m with
  | none => simp [flatB]
  | elseB b =>
    simp only [flatB, List.cons_append, List.append_assoc, scanBrk]
    rw [scan_L b (d+1)]; simp [scanBrk]
  | elif c b more =>
    simp only [flatB, List.cons_append, List.append_assoc, scanBrk]
    rw [scan_L b (d+1)]; simp only [List.cons_append, scanBrk, Nat.add_sub_cancel]
    exact scan_B more d r
end

theorem skip_block0 (b : SL) (r : List FS) : skipBlock 0 (.bstart :: (flatL b ++ .bend :: r)) = .ok r := by
  simp only [skipBlock]; rw [skip_L b 0]; simp [skipBlock]
theorem skip_elif0 (c : Nat) (b : SL) (r : List FS) :
    skipBlock 0 (.iff c :: .bstart :: (flatL b ++ .bend :: r)) = .ok r := by
  simp only [skipBlock]; rw [skip_L b 0]; simp [skipBlock]

theorem flat_noEls (s : S) (r) : startsEls (flat s ++ r) = false := by
  cases s <;> simp [flat, startsEls]
theorem flatL_noEls (ss : SL) (r) (h : startsEls r = false) : startsEls (flatL ss ++ r) = false := by
  cases ss with
  | nil => simpa [flatL]
  | cons s ss => simp only [flatL, List.append_assoc]; exact flat_noEls s _
theorem flatB_els (more : BL) (rest) (hr : startsEls rest = false) :
    startsEls (flatB more ++ rest) = (match more with | .none => false | _ => true) := by
  cases more with
  | none => simpa [flatB] using hr
  | elseB b => simp [flatB, startsEls]
  | elif c b m => simp [flatB, startsEls]

/-! ### continuations, one per signal -/
abbrev Loops := List (List FS × Nat)
abbrev Pr := R St → Prop

def KN (rest : List FS) (base : List Bool) (d : Nat) (lp : Loops) (P : Pr) (g : Sg) : Prop :=
  ∀ ts, AllT ts → ∀ n, FC (run n rest ⟨ts ++ base, d, g.out, g.ctr, lp⟩) P
def KB (rest : List FS) (base : List Bool) (d : Nat) (lp : Loops) (P : Pr) (g : Sg) : Prop :=
  ∃ start d0 ls after, lp = (start, d0) :: ls ∧ d0 < d ∧ scanBrk (d - d0) rest = .ok after ∧
    ∀ ts, AllT ts → ∀ n, FC (run n after ⟨ts ++ base, d0, g.out, g.ctr, ls⟩) P
def KC (base : List Bool) (d : Nat) (lp : Loops) (P : Pr) (g : Sg) : Prop :=
  ∃ start d0 ls, lp = (start, d0) :: ls ∧ d0 ≤ d ∧
    ∀ ts, AllT ts → ∀ n, FC (run n start ⟨ts ++ base, d0, g.out, g.ctr, lp⟩) P
def Post (sig : Sig) (rest : List FS) (base : List Bool) (d : Nat) (lp : Loops) (P : Pr) (g : Sg) : Prop :=
  match sig with
  | .normal => KN rest base d lp P g
  | .brk => KB rest base d lp P g
  | .cont => KC base d lp P g

/-- the same continuations seen from under extra leaked flags `ts0` -/
theorem Post_shift {sig rest base d lp P g} (ts0 : List Bool) (h0 : AllT ts0)
    (k : Post sig rest base d lp P g) : Post sig rest (ts0 ++ base) d lp P g := by
  cases sig with
  | normal => intro ts hts n; simpa using k (ts ++ ts0) (allT_app hts h0) n
  | brk =>
    obtain ⟨start, d0, ls, after, h1, h2, h3, h4⟩ := k
    exact ⟨start, d0, ls, after, h1, h2, h3, fun ts hts n => by simpa using h4 (ts ++ ts0) (allT_app hts h0) n⟩
  | cont =>
    obtain ⟨start, d0, ls, h1, h2, h4⟩ := k
    exact ⟨start, d0, ls, h1, h2, fun ts hts n => by simpa using h4 (ts ++ ts0) (allT_app hts h0) n⟩

/-- continuations for a block body (one more open block, `bend` first in the rest) -/
theorem Post_block {sig rest base d lp P g} (k : Post sig rest base d lp P g) :
    Post sig (.bend :: rest) base (d+1) lp P g := by
  cases sig with
  | normal =>
    intro ts hts n
    cases n with
    | zero => exact Or.inl rfl
    | succ n => simpa [run] using k ts hts n
  | brk =>
    obtain ⟨start, d0, ls, after, h1, h2, h3, h4⟩ := k
    refine ⟨start, d0, ls, after, h1, by omega, ?_, h4⟩
    have : d + 1 - d0 = (d - d0) + 1 := by omega
    rw [this]; simpa [scanBrk] using h3
  | cont =>
    obtain ⟨start, d0, ls, h1, h2, h4⟩ := k
    exact ⟨start, d0, ls, h1, by omega, h4⟩

/-- continuations for the head of a sequence: a non-normal signal skips the tail `mid` -/
theorem Post_skipL {sig rest base d lp P g} (ss : SL) (hs : sig ≠ .normal)
    (k : Post sig rest base d lp P g) : Post sig (flatL ss ++ rest) base d lp P g := by
  cases sig with
  | normal => exact absurd rfl hs
  | brk =>
    obtain ⟨start, d0, ls, after, h1, h2, h3, h4⟩ := k
    refine ⟨start, d0, ls, after, h1, h2, ?_, h4⟩
    obtain ⟨e, he⟩ : ∃ e, d - d0 = e + 1 := ⟨d - d0 - 1, by omega⟩
    rw [he] at h3 ⊢; rw [scan_L]; exact h3
  | cont => exact k
theorem Post_skipB {sig rest base d lp P g} (more : BL) (hs : sig ≠ .normal)
    (k : Post sig rest base d lp P g) : Post sig (flatB more ++ rest) base d lp P g := by
  cases sig with
  | normal => exact absurd rfl hs
  | brk =>
    obtain ⟨start, d0, ls, after, h1, h2, h3, h4⟩ := k
    refine ⟨start, d0, ls, after, h1, h2, ?_, h4⟩
    obtain ⟨e, he⟩ : ∃ e, d - d0 = e + 1 := ⟨d - d0 - 1, by omega⟩
    rw [he] at h3 ⊢; rw [scan_B]; exact h3
  | cont => exact k

/-! ### skipping the rest of a chain after a taken branch (no structured step involved) -/
theorem simB_taken (more : BL) (n : Nat) (rest : List FS) (B ts : List Bool) (d : Nat) (g : Sg) (lp : Loops) (P : Pr)
    (hts : AllT ts) (hr : startsEls rest = false)
    (k : KN rest B d lp P g) : FC (run n (flatB more ++ rest) ⟨ts ++ true :: B, d, g.out, g.ctr, lp⟩) P := by
  have popK : ∀ m, FC (run m rest ⟨(ts ++ true :: B).tail, d, g.out, g.ctr, lp⟩) P := by
    intro m
    cases ts with
    | nil => simpa using k [] allT_nil m
    | cons t ts1 =>
      have : AllT (ts1 ++ [true]) := allT_app (fun x hx => hts x (List.mem_cons_of_mem _ hx)) (allT_cons allT_nil)
      simpa using k (ts1 ++ [true]) this m
  have top : ∃ fl, ts ++ true :: B = true :: fl ∧ fl = (ts ++ true :: B).tail := by
    cases ts with
    | nil => exact ⟨_, rfl, rfl⟩
    | cons t ts1 => have := hts t (List.mem_cons_self); subst this; exact ⟨_, rfl, rfl⟩
  obtain ⟨fl, hfl, hfl2⟩ := top
  cases more with
  | none =>
    have := k (ts ++ [true]) (allT_app hts (allT_cons allT_nil)) n
    simpa [flatB] using this
  | elseB b =>
    cases n with
    | zero => exact Or.inl rfl
    | succ n =>
    simp only [flatB, List.cons_append, List.append_assoc, run, hfl]
    rw [skip_block0]
    simp only [List.nil_append, hr, Bool.false_eq_true, if_false, hfl2]
    exact popK n
  | elif c b more' =>
    cases n with
    | zero => exact Or.inl rfl
    | succ n =>
    simp only [flatB, List.cons_append, List.append_assoc, run, hfl]
    rw [skip_elif0]
    simp only []
    rw [flatB_els more' rest hr]
    cases more' with
    | none => simpa [flatB, hfl2] using popK n
    | elseB b' => simp only [if_true]; rw [← hfl]; exact simB_taken (.elseB b') n rest B ts d g lp P hts hr k
    | elif c' b' m' => simp only [if_true]; rw [← hfl]; exact simB_taken (.elif c' b' m') n rest B ts d g lp P hts hr k

/-! ### the simulation, by induction on the fuel of the structured run -/
def SimS (m : Nat) : Prop := ∀ (s : S) (g g' : Sg) (sig : Sig), exec m s g = some (sig, g') →
  ∀ (n : Nat) (rest : List FS) (base ts0 : List Bool) (d : Nat) (lp : Loops) (P : Pr),
    AllT ts0 → startsEls rest = false → Post sig rest base d lp P g' →
    FC (run n (flat s ++ rest) ⟨ts0 ++ base, d, g.out, g.ctr, lp⟩) P
def SimL (m : Nat) : Prop := ∀ (ss : SL) (g g' : Sg) (sig : Sig), execL m ss g = some (sig, g') →
  ∀ (n : Nat) (rest : List FS) (base ts0 : List Bool) (d : Nat) (lp : Loops) (P : Pr),
    AllT ts0 → startsEls rest = false → Post sig rest base d lp P g' →
    FC (run n (flatL ss ++ rest) ⟨ts0 ++ base, d, g.out, g.ctr, lp⟩) P
def SimNot (m : Nat) : Prop := ∀ (more : BL) (g g' : Sg) (sig : Sig), execB m more g = some (sig, g') →
  ∀ (n : Nat) (rest : List FS) (base ts0 : List Bool) (d : Nat) (lp : Loops) (P : Pr),
    AllT ts0 → startsEls rest = false → Post sig rest base d lp P g' →
    FC (if startsEls (flatB more ++ rest) then run n (flatB more ++ rest) ⟨false :: (ts0 ++ base), d, g.out, g.ctr, lp⟩
        else run n (flatB more ++ rest) ⟨ts0 ++ base, d, g.out, g.ctr, lp⟩) P
/-- a loop whose env is already pushed, positioned at the start of its body -/
def SimIter (m : Nat) : Prop := ∀ (b : SL) (g g' : Sg) (sig : Sig), exec m (.loop b) g = some (sig, g') →
  sig = .normal ∧
  ∀ (n : Nat) (rest : List FS) (base ts0 : List Bool) (d : Nat) (lp : Loops) (P : Pr),
    AllT ts0 → startsEls rest = false → KN rest base d lp P g' →
    FC (run n (.bstart :: (flatL b ++ .bend :: .cont :: rest))
      ⟨ts0 ++ base, d, g.out, g.ctr, (.bstart :: (flatL b ++ .bend :: .cont :: rest), d) :: lp⟩) P

/-- running an if-block whose condition held, then the tail of the chain -/
theorem taken_block {m : Nat} (hL : SimL m) (b : SL) (more : BL) (g g' : Sg) (sig : Sig)
    (hx : execL m b g = some (sig, g'))
    (n : Nat) (rest : List FS) (base ts0 : List Bool) (d : Nat) (lp : Loops) (P : Pr)
    (h0 : AllT ts0) (hr : startsEls rest = false) (k : Post sig rest base d lp P g') :
    FC (run n (.bstart :: (flatL b ++ .bend :: (flatB more ++ rest))) ⟨true :: (ts0 ++ base), d, g.out, g.ctr, lp⟩) P := by
  cases n with
  | zero => exact Or.inl rfl
  | succ n =>
  simp only [run]
  have := hL b g g' sig hx n (.bend :: (flatB more ++ rest)) (true :: (ts0 ++ base)) [] (d+1) lp P allT_nil
    (by simp [startsEls])
  simp only [List.nil_append] at this
  apply this
  have k' : Post sig rest (ts0 ++ base) d lp P g' := Post_shift ts0 h0 k
  cases sig with
  | normal =>
    intro ts hts n'
    cases n' with
    | zero => exact Or.inl rfl
    | succ n' =>
      simp only [run, Nat.add_sub_cancel]
      exact simB_taken more n' rest (ts0 ++ base) ts d g' lp P hts hr k'
  | brk =>
    have := Post_block (Post_skipB more (by simp) k')
    exact Post_shift [true] (allT_cons allT_nil) this
  | cont =>
    have := Post_block (Post_skipB more (by simp) k')
    exact Post_shift [true] (allT_cons allT_nil) this

theorem chainCore {m : Nat} (hL : SimL m) (hN : SimNot m) (c : Nat) (b : SL) (more : BL) (g g' : Sg) (sig : Sig)
    (hx : (if g.ctr < c then execL m b g else execB m more g) = some (sig, g'))
    (n : Nat) (rest : List FS) (base ts0 : List Bool) (d : Nat) (lp : Loops) (P : Pr)
    (h0 : AllT ts0) (hr : startsEls rest = false) (k : Post sig rest base d lp P g') :
    FC (run n (.iff c :: .bstart :: (flatL b ++ .bend :: (flatB more ++ rest))) ⟨ts0 ++ base, d, g.out, g.ctr, lp⟩) P := by
  cases n with
  | zero => exact Or.inl rfl
  | succ n =>
  by_cases hc : g.ctr < c
  · simp only [hc, if_true] at hx
    simp only [run, hc, if_true]
    exact taken_block hL b more g g' sig hx n rest base ts0 d lp P h0 hr k
  · simp only [hc, if_false] at hx
    simp only [run, hc, if_false]
    rw [skip_block0]
    exact hN more g g' sig hx n rest base ts0 d lp P h0 hr k

theorem scan_loop_end (d : Nat) (rest : List FS) :
    scanBrk (d + 1 - d) (.bend :: .cont :: rest) = .ok rest := by
  have : d + 1 - d = 1 := by omega
  rw [this]; simp [scanBrk]

/-- one more level of fuel for the loop-iteration lemma -/
theorem iter_succ {m : Nat} (hL : SimL m) (hI : SimIter m) : SimIter (m+1) := by
  intro b g g' sig hx
  simp only [exec] at hx
  cases h : execL m b g with
  | none => rw [h] at hx; simp at hx
  | some p =>
    obtain ⟨sg, g1⟩ := p
    rw [h] at hx
    cases sg with
    | brk =>
      simp only [Option.some.injEq, Prod.mk.injEq] at hx
      obtain ⟨rfl, rfl⟩ := hx
      refine ⟨rfl, ?_⟩
      intro n rest base ts0 d lp P h0 hr k
      cases n with
      | zero => exact Or.inl rfl
      | succ n =>
        simp only [run]
        apply hL b g g1 .brk h n _ base ts0 (d+1) _ P h0 (by simp [startsEls])
        exact ⟨_, d, lp, rest, rfl, by omega, scan_loop_end d rest, k⟩
    | normal =>
      simp only [] at hx
      obtain ⟨hsig, hiter⟩ := hI b g1 g' sig hx
      refine ⟨hsig, ?_⟩
      intro n rest base ts0 d lp P h0 hr k
      cases n with
      | zero => exact Or.inl rfl
      | succ n =>
        simp only [run]
        apply hL b g g1 .normal h n _ base ts0 (d+1) _ P h0 (by simp [startsEls])
        intro ts hts n'
        cases n' with
        | zero => exact Or.inl rfl
        | succ n' =>
          simp only [run, Nat.add_sub_cancel]
          cases n' with
          | zero => exact Or.inl rfl
          | succ n' =>
            simp only [run, Nat.lt_irrefl, if_false]
            exact hiter n' rest base ts d lp P hts hr k
    | cont =>
      simp only [] at hx
      obtain ⟨hsig, hiter⟩ := hI b g1 g' sig hx
      refine ⟨hsig, ?_⟩
      intro n rest base ts0 d lp P h0 hr k
      cases n with
      | zero => exact Or.inl rfl
      | succ n =>
        simp only [run]
        apply hL b g g1 .cont h n _ base ts0 (d+1) _ P h0 (by simp [startsEls])
        exact ⟨_, d, lp, rfl, by omega, fun ts hts n' => hiter n' rest base ts d lp P hts hr k⟩

theorem sim (m : Nat) : SimS m ∧ SimL m ∧ SimNot m ∧ SimIter m := by
  induction m with
  | zero =>
    refine ⟨?_, ?_, ?_, ?_⟩
    · intro s g g' sig hx; simp [exec] at hx
    · intro s g g' sig hx; simp [execL] at hx
    · intro s g g' sig hx; simp [execB] at hx
    · intro s g g' sig hx; simp [exec] at hx
  | succ m ih =>
    obtain ⟨hS, hL, hN, hI⟩ := ih
    have hI' : SimIter (m+1) := iter_succ hL hI
    refine ⟨?_, ?_, ?_, hI'⟩
    · -- statements
      intro s g g' sig hx n rest base ts0 d lp P h0 hr k
      cases s with
      | print x =>
        simp only [exec, Option.some.injEq, Prod.mk.injEq] at hx
        obtain ⟨rfl, rfl⟩ := hx
        cases n with
        | zero => exact Or.inl rfl
        | succ n => simpa [flat, run] using k ts0 h0 n
      | inc =>
        simp only [exec, Option.some.injEq, Prod.mk.injEq] at hx
        obtain ⟨rfl, rfl⟩ := hx
        cases n with
        | zero => exact Or.inl rfl
        | succ n => simpa [flat, run] using k ts0 h0 n
      | brk =>
        simp only [exec, Option.some.injEq, Prod.mk.injEq] at hx
        obtain ⟨rfl, rfl⟩ := hx
        obtain ⟨start, d0, ls, after, h1, h2, h3, h4⟩ := k
        cases n with
        | zero => exact Or.inl rfl
        | succ n =>
          subst h1
          have : ¬ d < d0 := by omega
          simp only [flat, List.cons_append, List.nil_append, run, this, if_false, h3]
          exact h4 ts0 h0 n
      | cont =>
        simp only [exec, Option.some.injEq, Prod.mk.injEq] at hx
        obtain ⟨rfl, rfl⟩ := hx
        obtain ⟨start, d0, ls, h1, h2, h4⟩ := k
        cases n with
        | zero => exact Or.inl rfl
        | succ n =>
          subst h1
          have : ¬ d < d0 := by omega
          simp only [flat, List.cons_append, List.nil_append, run, this, if_false]
          exact h4 ts0 h0 n
      | block ss =>
        simp only [exec] at hx
        cases n with
        | zero => exact Or.inl rfl
        | succ n =>
          simp only [flat, List.cons_append, List.append_assoc, List.nil_append, run]
          exact hL ss g g' sig hx n _ base ts0 (d+1) lp P h0 (by simp [startsEls]) (Post_block k)
      | chain c b more =>
        simp only [exec] at hx
        simp only [flat, List.cons_append, List.append_assoc]
        exact chainCore hL hN c b more g g' sig hx n rest base ts0 d lp P h0 hr k
      | loop b =>
        obtain ⟨hsig, hiter⟩ := hI' b g g' sig hx
        subst hsig
        cases n with
        | zero => exact Or.inl rfl
        | succ n =>
          simp only [flat, List.cons_append, List.append_assoc, List.nil_append, run]
          exact hiter n rest base ts0 d lp P h0 hr k
    · -- statement lists
      intro ss g g' sig hx n rest base ts0 d lp P h0 hr k
      cases ss with
      | nil =>
        simp only [execL, Option.some.injEq, Prod.mk.injEq] at hx
        obtain ⟨rfl, rfl⟩ := hx
        simpa [flatL] using k ts0 h0 n
      | cons s ss =>
        simp only [execL] at hx
        simp only [flatL, List.append_assoc]
        cases h : exec m s g with
        | none => rw [h] at hx; simp at hx
        | some p =>
          obtain ⟨sg, g1⟩ := p
          rw [h] at hx
          cases sg with
          | normal =>
            simp only [] at hx
            apply hS s g g1 .normal h n _ base ts0 d lp P h0 (flatL_noEls ss rest hr)
            intro ts hts n'
            exact hL ss g1 g' sig hx n' rest base ts d lp P hts hr k
          | brk =>
            simp only [Option.some.injEq, Prod.mk.injEq] at hx
            obtain ⟨rfl, rfl⟩ := hx
            exact hS s g g1 .brk h n _ base ts0 d lp P h0 (flatL_noEls ss rest hr) (Post_skipL ss (by simp) k)
          | cont =>
            simp only [Option.some.injEq, Prod.mk.injEq] at hx
            obtain ⟨rfl, rfl⟩ := hx
            exact hS s g g1 .cont h n _ base ts0 d lp P h0 (flatL_noEls ss rest hr) (Post_skipL ss (by simp) k)
    · -- the tail of a chain after a false condition
      intro more g g' sig hx n rest base ts0 d lp P h0 hr k
      rw [flatB_els more rest hr]
      cases more with
      | none =>
        simp only [execB, Option.some.injEq, Prod.mk.injEq] at hx
        obtain ⟨rfl, rfl⟩ := hx
        simpa [flatB] using k ts0 h0 n
      | elseB b =>
        simp only [execB] at hx
        simp only [if_true]
        cases n with
        | zero => exact Or.inl rfl
        | succ n =>
        simp only [flatB, List.cons_append, List.append_assoc, List.nil_append, run]
        cases n with
        | zero => exact Or.inl rfl
        | succ n =>
        simp only [run]
        exact hL b g g' sig hx n _ base ts0 (d+1) lp P h0 (by simp [startsEls]) (Post_block k)
      | elif c b more' =>
        simp only [execB] at hx
        simp only [if_true]
        cases n with
        | zero => exact Or.inl rfl
        | succ n =>
        simp only [flatB, List.cons_append, List.append_assoc, run]
        exact chainCore hL hN c b more' g g' sig hx n rest base ts0 d lp P h0 hr k

/-- Headline (C02+C03-shaped). For every program `p` of nested chains, blocks and loops with
    `থামাও`/`আবার` anywhere, every prior flag history `base`, every scope depth and every enclosing
    loop stack `lp`: whenever the structured run ends normally, the flat machine — with its flag stack,
    loop stack, block skipping and the depth-based break scan — either is still running or ends with the
    structured output and counter, `lp` and the depth restored, and only leaked `true`s above `base`. -/
theorem flat_refines (p : SL) (base : List Bool) (d : Nat) (lp : Loops) (g g' : Sg) (m n : Nat)
    (hx : execL m p g = some (.normal, g')) :
    run n (flatL p) ⟨base, d, g.out, g.ctr, lp⟩ = .fuel ∨
    ∃ ts, AllT ts ∧ run n (flatL p) ⟨base, d, g.out, g.ctr, lp⟩ = .ok ⟨ts ++ base, d, g'.out, g'.ctr, lp⟩ := by
  have h := (sim m).2.1 p g g' .normal hx n [] base [] d lp
    (fun r => ∃ ts, AllT ts ∧ r = .ok ⟨ts ++ base, d, g'.out, g'.ctr, lp⟩) allT_nil rfl (by
      intro ts hts n'
      cases n' with
      | zero => exact Or.inl rfl
      | succ n' => exact Or.inr ⟨ts, hts, by simp [run]⟩)
  simpa [FC] using h

/-- non-vacuity: the demo program (continue-statement in an if, break in an else, a nested loop and a
    print *after* the break textually) — the shape on which the pinned Rust code resumes at the wrong
    `আবার;` -/
example : execL 200 demo ⟨[], 0⟩ = some (.normal, ⟨[1, 7, 1, 7, 9], 3⟩) := by decide
#print axioms flat_refines
