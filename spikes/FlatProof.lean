import Flat

def FC {α} (r : R α) (P : R α → Prop) : Prop := r = .fuel ∨ P r
theorem FC.fuel {α} (P : R α → Prop) : FC (.fuel : R α) P := Or.inl rfl

def AllT (ts : List Bool) : Prop := ∀ t ∈ ts, t = true

/-! ### skipping over well-formed code -/
mutual
theorem skip_S (s : S) (d : Nat) (r : List FS) : skipBlock (d+1) (flat s ++ r) = skipBlock (d+1) r := by
  cases s with
  | print k => simp [flat, skipBlock]
  | block ss =>
    simp only [flat, List.cons_append, List.append_assoc, skipBlock]
    rw [skip_L ss (d+1)]; simp [skipBlock]
  | chain c b more =>
    simp only [flat, List.cons_append, List.append_assoc, skipBlock]
    rw [skip_L b (d+1)]; simp only [List.cons_append, skipBlock]
    exact skip_B more d r
theorem skip_L (ss : SL) (d : Nat) (r : List FS) : skipBlock (d+1) (flatL ss ++ r) = skipBlock (d+1) r := by
  cases ss with
  | nil => simp [flatL]
  | cons s ss => simp only [flatL, List.append_assoc]; rw [skip_S s d, skip_L ss d]
theorem skip_B (m : BL) (d : Nat) (r : List FS) : skipBlock (d+1) (flatB m ++ r) = skipBlock (d+1) r := by
  cases m with
  | none => simp [flatB]
  | elseB b =>
    simp only [flatB, List.cons_append, List.append_assoc, skipBlock]
    rw [skip_L b (d+1)]; simp [skipBlock]
  | elif c b more =>
    simp only [flatB, List.cons_append, List.append_assoc, skipBlock]
    rw [skip_L b (d+1)]; simp only [List.cons_append, skipBlock]
    exact skip_B more d r
end

theorem skip_block0 (b : SL) (r : List FS) : skipBlock 0 (.bstart :: (flatL b ++ .bend :: r)) = .ok r := by
  simp only [skipBlock]; rw [skip_L b 0]; simp [skipBlock]

theorem skip_elif0 (c : Bool) (b : SL) (r : List FS) :
    skipBlock 0 (.iff c :: .bstart :: (flatL b ++ .bend :: r)) = .ok r := by
  simp only [skipBlock]; rw [skip_L b 0]; simp [skipBlock]

theorem flat_noEls (s : S) (r) : startsEls (flat s ++ r) = false := by
  cases s <;> simp [flat, startsEls]
theorem flatL_noEls (ss : SL) (r) (h : startsEls r = false) : startsEls (flatL ss ++ r) = false := by
  cases ss with
  | nil => simpa [flatL]
  | cons s ss => simp only [flatL, List.append_assoc]; exact flat_noEls s _

/-- continuation after a statement/list finished: any leaked `true` flags on top of the base -/
def K (rest : List FS) (base : List Bool) (depth : Nat) (out : List Nat) (v : R St → Prop) : Prop :=
  ∀ ts, AllT ts → ∀ m, FC (run m rest ⟨ts ++ base, depth, out⟩) v

theorem allT_nil : AllT [] := by intro t h; cases h
theorem allT_cons {ts} (h : AllT ts) : AllT (true :: ts) := by
  intro t ht; cases ht with | head => rfl | tail _ h' => exact h t h'
theorem allT_app {a b} (ha : AllT a) (hb : AllT b) : AllT (a ++ b) := by
  intro t ht; rcases List.mem_append.mp ht with h | h; exact ha t h; exact hb t h


theorem flatB_els (more : BL) (rest) (hr : startsEls rest = false) :
    startsEls (flatB more ++ rest) = (match more with | .none => false | _ => true) := by
  cases more with
  | none => simpa [flatB] using hr
  | elseB b => simp [flatB, startsEls]
  | elif c b m => simp [flatB, startsEls]

/-- statement of `sim_L` for a fixed list, as a hypothesis -/
def SimL (b : SL) : Prop := ∀ (n : Nat) (rest : List FS) (base ts0 : List Bool) (d : Nat) (o : List Nat) (v : R St → Prop),
    AllT ts0 → startsEls rest = false → K rest base d (execL b o) v →
    FC (run n (flatL b ++ rest) ⟨ts0 ++ base, d, o⟩) v
def SimTaken (more : BL) : Prop := ∀ (n : Nat) (rest : List FS) (B ts : List Bool) (d : Nat) (o : List Nat) (v : R St → Prop),
    AllT ts → startsEls rest = false → K rest B d o v →
    FC (run n (flatB more ++ rest) ⟨ts ++ true :: B, d, o⟩) v
def SimNot (more : BL) : Prop := ∀ (n : Nat) (rest : List FS) (base ts0 : List Bool) (d : Nat) (o : List Nat) (v : R St → Prop),
    AllT ts0 → startsEls rest = false → K rest base d (execB more o) v →
    FC (if startsEls (flatB more ++ rest) then run n (flatB more ++ rest) ⟨false :: (ts0 ++ base), d, o⟩
        else run n (flatB more ++ rest) ⟨ts0 ++ base, d, o⟩) v

theorem K_shift {rest base ts0 d o v} (h0 : AllT ts0) (k : K rest base d o v) : K rest (ts0 ++ base) d o v := by
  intro ts hts m
  have := k (ts ++ ts0) (allT_app hts h0) m
  simpa using this

theorem chainCore (c : Bool) (b : SL) (more : BL) (ihb : SimL b) (iht : SimTaken more) (ihn : SimNot more)
    (n : Nat) (rest : List FS) (base ts0 : List Bool) (d : Nat) (o : List Nat) (v : R St → Prop)
    (h0 : AllT ts0) (hr : startsEls rest = false)
    (k : K rest base d (if c then execL b o else execB more o) v) :
    FC (run n (.iff c :: .bstart :: (flatL b ++ .bend :: (flatB more ++ rest))) ⟨ts0 ++ base, d, o⟩) v := by
  cases n with
  | zero => exact Or.inl rfl
  | succ n =>
  cases c with
  | true =>
    simp only [run]
    cases n with
    | zero => exact Or.inl rfl
    | succ n =>
    simp only [run]
    have := ihb n (.bend :: (flatB more ++ rest)) (true :: (ts0 ++ base)) [] (d+1) o v allT_nil (by simp [startsEls])
    simp only [List.nil_append] at this
    apply this
    intro ts hts m
    cases m with
    | zero => exact Or.inl rfl
    | succ m =>
      simp only [run, Nat.add_sub_cancel]
      exact iht m rest (ts0 ++ base) ts d (execL b o) v hts hr (K_shift h0 (by simpa using k))
  | false =>
    simp only [run]
    rw [skip_block0]
    exact ihn n rest base ts0 d o v h0 hr (by simpa using k)

mutual
theorem sim_S (s : S) (n : Nat) (rest : List FS) (base ts0 : List Bool) (d : Nat) (o : List Nat) (v : R St → Prop)
    (h0 : AllT ts0) (hr : startsEls rest = false)
    (k : K rest base d (exec s o) v) : FC (run n (flat s ++ rest) ⟨ts0 ++ base, d, o⟩) v := by
  cases s with
  | print x =>
    cases n with
    | zero => exact Or.inl rfl
    | succ n => simpa [flat, run, exec] using k ts0 h0 n
  | block ss =>
    cases n with
    | zero => exact Or.inl rfl
    | succ n =>
    simp only [flat, List.cons_append, List.append_assoc, run]
    apply sim_L ss n _ base ts0 (d+1) o v h0 (by simp [startsEls])
    intro ts hts m
    cases m with
    | zero => exact Or.inl rfl
    | succ m => simpa [run, exec] using k ts hts m
  | chain c b more =>
    simp only [flat, List.cons_append, List.append_assoc]
    exact chainCore c b more (sim_L b) (simB_taken more) (simB_not more) n rest base ts0 d o v h0 hr
      (by simpa [exec] using k)
theorem sim_L (ss : SL) (n : Nat) (rest : List FS) (base ts0 : List Bool) (d : Nat) (o : List Nat) (v : R St → Prop)
    (h0 : AllT ts0) (hr : startsEls rest = false)
    (k : K rest base d (execL ss o) v) : FC (run n (flatL ss ++ rest) ⟨ts0 ++ base, d, o⟩) v := by
  cases ss with
  | nil => simpa [flatL, execL] using k ts0 h0 n
  | cons s ss =>
    simp only [flatL, List.append_assoc]
    apply sim_S s n _ base ts0 d o v h0 (flatL_noEls ss rest hr)
    intro ts hts m
    exact sim_L ss m rest base ts d (exec s o) v hts hr (by simpa [execL] using k)
theorem simB_taken (more : BL) (n : Nat) (rest : List FS) (B ts : List Bool) (d : Nat) (o : List Nat) (v : R St → Prop)
    (hts : AllT ts) (hr : startsEls rest = false)
    (k : K rest B d o v) : FC (run n (flatB more ++ rest) ⟨ts ++ true :: B, d, o⟩) v := by
  have popK : ∀ m, FC (run m rest ⟨(ts ++ true :: B).tail, d, o⟩) v := by
    intro m
    cases ts with
    | nil => simpa using k [] allT_nil m
    | cons t ts1 =>
      have : AllT (ts1 ++ [true]) := allT_app (fun x hx => hts x (List.mem_cons_of_mem _ hx)) (allT_cons allT_nil)
      simpa using k (ts1 ++ [true]) this m
  have top : ∃ fl, ts ++ true :: B = true :: fl ∧ fl = (ts ++ true :: B).tail := by
    cases ts with
    | nil => exact ⟨_, rfl, rfl⟩
    | cons t ts1 => have := hts t (List.mem_cons_self); subst this; exact ⟨_, rfl, rfl⟩
  obtain ⟨fl, hfl, hfl2⟩ := top
  cases more with
  | none =>
    have := k (ts ++ [true]) (allT_app hts (allT_cons allT_nil)) n
    simpa [flatB] using this
  | elseB b =>
    cases n with
    | zero => exact Or.inl rfl
    | succ n =>
    simp only [flatB, List.cons_append, List.append_assoc, run, hfl]
    rw [skip_block0]
    simp only [List.nil_append, hr, Bool.false_eq_true, if_false, hfl2]
    exact popK n
  | elif c b more' =>
    cases n with
    | zero => exact Or.inl rfl
    | succ n =>
    simp only [flatB, List.cons_append, List.append_assoc, run, hfl]
    rw [skip_elif0]
    simp only []
    rw [flatB_els more' rest hr]
    cases more' with
    | none => simpa [flatB, hfl2] using popK n
    | elseB b' => simp only [if_true]; rw [← hfl]; exact simB_taken (.elseB b') n rest B ts d o v hts hr k
    | elif c' b' m' => simp only [if_true]; rw [← hfl]; exact simB_taken (.elif c' b' m') n rest B ts d o v hts hr k
theorem simB_not (more : BL) (n : Nat) (rest : List FS) (base ts0 : List Bool) (d : Nat) (o : List Nat) (v : R St → Prop)
    (h0 : AllT ts0) (hr : startsEls rest = false)
    (k : K rest base d (execB more o) v) :
    FC (if startsEls (flatB more ++ rest) then run n (flatB more ++ rest) ⟨false :: (ts0 ++ base), d, o⟩
        else run n (flatB more ++ rest) ⟨ts0 ++ base, d, o⟩) v := by
  rw [flatB_els more rest hr]
  cases more with
  | none => simpa [flatB, execB] using k ts0 h0 n
  | elseB b =>
    simp only [if_true]
    cases n with
    | zero => exact Or.inl rfl
    | succ n =>
    simp only [flatB, List.cons_append, List.append_assoc, run]
    cases n with
    | zero => exact Or.inl rfl
    | succ n =>
    simp only [run]
    apply sim_L b n _ base ts0 (d+1) o v h0 (by simp [startsEls])
    intro ts hts m
    cases m with
    | zero => exact Or.inl rfl
    | succ m => simpa [run, execB] using k ts hts m
  | elif c b more' =>
    simp only [if_true]
    cases n with
    | zero => exact Or.inl rfl
    | succ n =>
    simp only [flatB, List.cons_append, List.append_assoc, run]
    exact chainCore c b more' (sim_L b) (simB_taken more') (simB_not more') n rest base ts0 d o v h0 hr
      (by simpa [execB] using k)
end

/-- Headline (C02-shaped): the flat machine with the flag stack runs exactly the branch the structured
    semantics picks, from ANY prior flag history `base`, and leaves `base` under only leaked `true`s. -/
theorem flat_refines (p : SL) (base : List Bool) (d : Nat) (o : List Nat) (n : Nat) :
    run n (flatL p) ⟨base, d, o⟩ = .fuel ∨
    ∃ ts, AllT ts ∧ run n (flatL p) ⟨base, d, o⟩ = .ok ⟨ts ++ base, d, execL p o⟩ := by
  have h := sim_L p n [] base [] d o (fun r => ∃ ts, AllT ts ∧ r = .ok ⟨ts ++ base, d, execL p o⟩)
    allT_nil rfl (by
      intro ts hts m
      cases m with
      | zero => exact Or.inl rfl
      | succ m => exact Or.inr ⟨ts, hts, by simp [run]⟩)
  simpa [FC] using h

/-- non-vacuity: a concrete nested chain that the unfixed Rust code panics on -/
example : run 50 (flatL (.cons (.chain true (.cons (.chain true (.cons (.print 1) .nil) (.elseB (.cons (.print 2) .nil))) .nil)
      (.elseB (.cons (.print 3) .nil))) (.cons (.print 9) .nil))) ⟨[], 0, []⟩ = .ok ⟨[], 0, [1, 9]⟩ := by rfl
#print axioms flat_refines
