-- Spike: mini ladder (add/sub < mul < unary < primary) with fuel, mirrors the Rust while-loops.
inductive Tok where
  | num (n : Nat) | plus | minus | star | lp | rp | semi
  deriving DecidableEq, Repr

inductive E where
  | num (n : Nat)
  | add (l r : E) | sub (l r : E) | mul (l r : E)
  | neg (e : E)
  | grp (e : E)
  deriving DecidableEq, Repr

inductive R (α : Type) where
  | ok (a : α) | err | fuel
  deriving Repr

def isAddOp : Tok → Bool | .plus => true | .minus => true | _ => false

mutual
def pExpr : Nat → List Tok → R (E × List Tok)
  | 0, _ => .fuel
  | n+1, ts => pAdd n ts
def pAdd : Nat → List Tok → R (E × List Tok)
  | 0, _ => .fuel
  | n+1, ts =>
    match pMul n ts with
    | .ok (l, rest) => pAddLoop n l rest
    | .err => .err | .fuel => .fuel
def pAddLoop : Nat → E → List Tok → R (E × List Tok)
  | 0, _, _ => .fuel
  | n+1, l, .plus :: rest =>
    (match pMul n rest with
     | .ok (r, rest') => pAddLoop n (.add l r) rest'
     | .err => .err | .fuel => .fuel)
  | n+1, l, .minus :: rest =>
    (match pMul n rest with
     | .ok (r, rest') => pAddLoop n (.sub l r) rest'
     | .err => .err | .fuel => .fuel)
  | _+1, l, ts => .ok (l, ts)
def pMul : Nat → List Tok → R (E × List Tok)
  | 0, _ => .fuel
  | n+1, ts =>
    match pUn n ts with
    | .ok (l, rest) => pMulLoop n l rest
    | .err => .err | .fuel => .fuel
def pMulLoop : Nat → E → List Tok → R (E × List Tok)
  | 0, _, _ => .fuel
  | n+1, l, .star :: rest =>
    (match pUn n rest with
     | .ok (r, rest') => pMulLoop n (.mul l r) rest'
     | .err => .err | .fuel => .fuel)
  | _+1, l, ts => .ok (l, ts)
def pUn : Nat → List Tok → R (E × List Tok)
  | 0, _ => .fuel
  | n+1, .minus :: rest =>
    (match pUn n rest with
     | .ok (r, rest') => .ok (.neg r, rest')
     | .err => .err | .fuel => .fuel)
  | n+1, ts => pPrim n ts
def pPrim : Nat → List Tok → R (E × List Tok)
  | 0, _ => .fuel
  | _+1, .num k :: rest => .ok (.num k, rest)
  | n+1, .lp :: rest =>
    (match pExpr n rest with
     | .ok (e, _ :: rest') => .ok (.grp e, rest')   -- Rust: consumes ')' without looking
     | .ok (_, []) => .err
     | .err => .err | .fuel => .fuel)
  | _+1, _ => .err
end

-- derivation trees of the ladder grammar: level 0 = additive, 1 = multiplicative, 2 = unary, 3 = primary
inductive WF : Nat → E → Prop where
  | num (n) : WF 3 (.num n)
  | grp {e} : WF 0 e → WF 3 (.grp e)
  | neg {e} : WF 2 e → WF 2 (.neg e)
  | mul {l r} : WF 1 l → WF 2 r → WF 1 (.mul l r)
  | add {l r} : WF 0 l → WF 1 r → WF 0 (.add l r)
  | sub {l r} : WF 0 l → WF 1 r → WF 0 (.sub l r)
  | up {k e} : WF (k+1) e → WF k e

def toks : E → List Tok
  | .num n => [.num n]
  | .grp e => [.lp] ++ toks e ++ [.rp]
  | .neg e => [.minus] ++ toks e
  | .mul l r => toks l ++ [.star] ++ toks r
  | .add l r => toks l ++ [.plus] ++ toks r
  | .sub l r => toks l ++ [.minus] ++ toks r

#eval pExpr 100 (toks (.sub (.sub (.num 10) (.num 3)) (.mul (.num 2) (.neg (.grp (.add (.num 1) (.num 2)))))) ++ [.semi])
