import Ladder

def FC {α} (r : R α) (v : R α) : Prop := r = .fuel ∨ r = v
theorem FC.fuel {α} (v : R α) : FC (.fuel : R α) v := Or.inl rfl

def stop1 : List Tok → Prop | .star :: _ => False | _ => True
def stop0 : List Tok → Prop | .plus :: _ => False | .minus :: _ => False | .star :: _ => False | _ => True
theorem stop0_1 {r} : stop0 r → stop1 r := by cases r with | nil => simp [stop1] | cons t _ => cases t <;> simp [stop0, stop1]

def Pprim (e : E) := ∀ n rest, FC (pPrim n (toks e ++ rest)) (.ok (e, rest))
def Pun (e : E) := ∀ n rest, FC (pUn n (toks e ++ rest)) (.ok (e, rest))
def Q1 (e : E) := ∀ n rest v, (∀ m, FC (pMulLoop m e rest) v) → FC (pMul n (toks e ++ rest)) v
def P1 (e : E) := ∀ n rest, stop1 rest → FC (pMul n (toks e ++ rest)) (.ok (e, rest))
def Q0 (e : E) := ∀ n rest v, stop1 rest → (∀ m, FC (pAddLoop m e rest) v) → FC (pAdd n (toks e ++ rest)) v
def P0 (e : E) := ∀ n rest, stop0 rest → FC (pExpr n (toks e ++ rest)) (.ok (e, rest))

theorem L2 {e} (h : Pun e) : Q1 e := by
  intro n rest v hl
  cases n with
  | zero => exact Or.inl rfl
  | succ n =>
    simp only [pMul]
    rcases h n rest with h | h <;> rw [h]
    · exact FC.fuel _
    · exact hl n

theorem L3 {e} (h : Q1 e) : P1 e := by
  intro n rest hs
  apply h
  intro m
  cases m with
  | zero => exact Or.inl rfl
  | succ m =>
    right
    cases rest with
    | nil => simp [pMulLoop]
    | cons t r => cases t <;> simp_all [pMulLoop, stop1]

theorem L4 {e} (h : P1 e) : Q0 e := by
  intro n rest v hs hl
  cases n with
  | zero => exact Or.inl rfl
  | succ n =>
    simp only [pAdd]
    rcases h n rest hs with h | h <;> rw [h]
    · exact FC.fuel _
    · exact hl n

theorem L5 {e} (h : Q0 e) : P0 e := by
  intro n rest hs
  cases n with
  | zero => exact Or.inl rfl
  | succ n =>
    simp only [pExpr]
    apply h _ _ _ (stop0_1 hs)
    intro m
    cases m with
    | zero => exact Or.inl rfl
    | succ m =>
      right
      cases rest with
      | nil => simp [pAddLoop]
      | cons t r => cases t <;> simp_all [pAddLoop, stop0]

structure All (k : Nat) (e : E) : Prop where
  prim : 3 ≤ k → Pprim e
  un : 2 ≤ k → Pun e
  q1 : 1 ≤ k → Q1 e
  p1 : 1 ≤ k → P1 e
  q0 : Q0 e
  p0 : P0 e

theorem fromUn {k e} (h : Pun e) (hp : 3 ≤ k → Pprim e) : All k e :=
  ⟨hp, fun _ => h, fun _ => L2 h, fun _ => L3 (L2 h), L4 (L3 (L2 h)), L5 (L4 (L3 (L2 h)))⟩

theorem primUn {e} (h : Pprim e) (hne : ∀ rest, ∃ t r, toks e ++ rest = t :: r ∧ t ≠ .minus) : Pun e := by
  intro n rest
  cases n with
  | zero => exact Or.inl rfl
  | succ n =>
    obtain ⟨t, r, ht, hm⟩ := hne rest
    have := h n rest
    rw [ht] at this ⊢
    cases t <;> simp_all [pUn]

theorem rt {k : Nat} {e : E} (h : WF k e) : All k e := by
  induction h with
  | num k =>
    apply fromUn
    · apply primUn
      · intro n rest; cases n <;> simp [pPrim, toks, FC]
      · intro rest; exact ⟨_, _, rfl, by simp⟩
    · intro _ n rest; cases n <;> simp [pPrim, toks, FC]
  | @grp e _ ih =>
    have hp : Pprim (.grp e) := by
      intro n rest
      cases n with
      | zero => exact Or.inl rfl
      | succ n =>
        have := ih.p0 n (.rp :: rest) (by simp [stop0])
        simp only [toks, List.append_assoc, List.cons_append, List.nil_append, pPrim]
        rcases this with h | h <;> rw [h]
        · exact FC.fuel _
        · right; rfl
    apply fromUn
    · apply primUn hp
      intro rest; exact ⟨_, _, rfl, by simp⟩
    · intro _; exact hp
  | @neg e _ ih =>
    apply fromUn
    · intro n rest
      cases n with
      | zero => exact Or.inl rfl
      | succ n =>
        simp only [toks, List.cons_append, List.nil_append, pUn]
        rcases ih.un (Nat.le_refl _) n rest with h | h <;> rw [h]
        · exact FC.fuel _
        · right; rfl
    · intro h; omega
  | @mul l r _ _ ihl ihr =>
    have hq : Q1 (.mul l r) := by
      intro n rest v hl
      simp only [toks, List.append_assoc, List.cons_append, List.nil_append]
      apply ihl.q1 (Nat.le_refl _)
      intro m
      cases m with
      | zero => exact Or.inl rfl
      | succ m =>
        simp only [pMulLoop]
        rcases ihr.un (by omega) m rest with h | h <;> rw [h]
        · exact FC.fuel _
        · exact hl m
    exact ⟨fun h => (by omega), fun h => (by omega), fun _ => hq, fun _ => L3 hq, L4 (L3 hq), L5 (L4 (L3 hq))⟩
  | @add l r _ _ ihl ihr =>
    have hq : Q0 (.add l r) := by
      intro n rest v hs hl
      simp only [toks, List.append_assoc, List.cons_append, List.nil_append]
      apply ihl.q0 _ _ _ (by simp [stop1])
      intro m
      cases m with
      | zero => exact Or.inl rfl
      | succ m =>
        simp only [pAddLoop]
        rcases ihr.p1 (by omega) m rest hs with h | h <;> rw [h]
        · exact FC.fuel _
        · exact hl m
    exact ⟨fun h => (by omega), fun h => (by omega), fun h => (by omega), fun h => (by omega), hq, L5 hq⟩
  | @sub l r _ _ ihl ihr =>
    have hq : Q0 (.sub l r) := by
      intro n rest v hs hl
      simp only [toks, List.append_assoc, List.cons_append, List.nil_append]
      apply ihl.q0 _ _ _ (by simp [stop1])
      intro m
      cases m with
      | zero => exact Or.inl rfl
      | succ m =>
        simp only [pAddLoop]
        rcases ihr.p1 (by omega) m rest hs with h | h <;> rw [h]
        · exact FC.fuel _
        · exact hl m
    exact ⟨fun h => (by omega), fun h => (by omega), fun h => (by omega), fun h => (by omega), hq, L5 hq⟩
  | @up k e _ ih =>
    exact ⟨fun h => ih.prim (by omega), fun h => ih.un (by omega), fun h => ih.q1 (by omega), fun h => ih.p1 (by omega), ih.q0, ih.p0⟩

/-- Headline: every derivation tree of the ladder grammar parses back to itself. -/
theorem parse_toks (e : E) (h : WF 0 e) (n : Nat) :
    pExpr n (toks e ++ [.semi]) = .fuel ∨ pExpr n (toks e ++ [.semi]) = .ok (e, [.semi]) :=
  (rt h).p0 n [.semi] (by simp [stop0])

#print axioms parse_toks
