-- Spike 3: recursive DFS marking with a visited set = reachability (cycles allowed).
inductive V where | n (k : Nat) | ref (i : Nat)
  deriving DecidableEq, Repr

abbrev Heap := Nat → List V          -- arena slot ↦ elements (spike: total function, bounds are routine)
abbrev Marks := Nat → Bool

def setM (ms : Marks) (i : Nat) : Marks := fun j => if j = i then true else ms j

/-- mirrors `mark_all_reachable_from_list`: for each element that is an unmarked reference, mark it and recurse -/
def markVals : Nat → Heap → List V → Marks → Option Marks
  | 0, _, _, _ => none
  | _+1, _, [], ms => some ms
  | n+1, h, .n _ :: vs, ms => markVals n h vs ms
  | n+1, h, .ref i :: vs, ms =>
    if ms i then markVals n h vs ms
    else
      match markVals n h (h i) (setM ms i) with
      | none => none
      | some ms1 => markVals n h vs ms1

/-- reachability from a list of values -/
inductive Reach (h : Heap) (vs : List V) : Nat → Prop where
  | root {i} : V.ref i ∈ vs → Reach h vs i
  | step {i j} : Reach h vs i → V.ref j ∈ h i → Reach h vs j

structure Spec (h : Heap) (vs : List V) (ms ms' : Marks) : Prop where
  mono : ∀ i, ms i = true → ms' i = true
  roots : ∀ i, V.ref i ∈ vs → ms' i = true
  closed : ∀ i, ms' i = true → ms i = false → ∀ j, V.ref j ∈ h i → ms' j = true
  sound : ∀ i, ms' i = true → ms i = true ∨ Reach h vs i

theorem reach_mono {h vs ws i} (hsub : ∀ v, v ∈ vs → v ∈ ws) (r : Reach h vs i) : Reach h ws i := by
  induction r with
  | root hm => exact .root (hsub _ hm)
  | step _ hj ih => exact .step ih hj

theorem reach_via {h vs i k} (hi : V.ref i ∈ vs) (r : Reach h (h i) k) : Reach h vs k := by
  induction r with
  | root hm => exact .step (.root hi) hm
  | step _ hj ih => exact .step ih hj

theorem mark_spec (n : Nat) : ∀ (h : Heap) (vs : List V) (ms ms' : Marks),
    markVals n h vs ms = some ms' → Spec h vs ms ms' := by
  induction n with
  | zero => intro h vs ms ms' hx; simp [markVals] at hx
  | succ n ih =>
    intro h vs ms ms' hx
    cases vs with
    | nil =>
      simp only [markVals, Option.some.injEq] at hx; subst hx
      exact ⟨fun _ h => h, fun _ hm => (by cases hm), fun i h1 h2 => (by simp_all), fun _ h => Or.inl h⟩
    | cons v vs =>
      cases v with
      | n k =>
        simp only [markVals] at hx
        have s := ih h vs ms ms' hx
        refine ⟨s.mono, ?_, s.closed, ?_⟩
        · intro i hm
          cases hm with
          | tail _ hm => exact s.roots i hm
        · intro i hi
          rcases s.sound i hi with h1 | h1
          · exact Or.inl h1
          · exact Or.inr (reach_mono (fun v hv => List.mem_cons_of_mem _ hv) h1)
      | ref i0 =>
        simp only [markVals] at hx
        by_cases hm0 : ms i0 = true
        · simp only [hm0, if_true] at hx
          have s := ih h vs ms ms' hx
          refine ⟨s.mono, ?_, s.closed, ?_⟩
          · intro i hm
            cases hm with
            | head => exact s.mono _ hm0
            | tail _ hm => exact s.roots i hm
          · intro i hi
            rcases s.sound i hi with h1 | h1
            · exact Or.inl h1
            · exact Or.inr (reach_mono (fun v hv => List.mem_cons_of_mem _ hv) h1)
        · have hm0' : ms i0 = false := by simpa using hm0
          simp only [hm0', Bool.false_eq_true, if_false] at hx
          cases h1 : markVals n h (h i0) (setM ms i0) with
          | none => rw [h1] at hx; simp at hx
          | some ms1 =>
            rw [h1] at hx
            simp only [] at hx
            have s1 := ih h (h i0) (setM ms i0) ms1 h1
            have s2 := ih h vs ms1 ms' hx
            have set_self : setM ms i0 i0 = true := by simp [setM]
            have set_of : ∀ j, ms j = true → setM ms i0 j = true := by
              intro j hj; simp [setM, hj]
            have set_other : ∀ j, j ≠ i0 → setM ms i0 j = ms j := by
              intro j hj; simp [setM, hj]
            refine ⟨?_, ?_, ?_, ?_⟩
            · intro i hi; exact s2.mono i (s1.mono i (set_of i hi))
            · intro i hm
              cases hm with
              | head => exact s2.mono _ (s1.mono _ set_self)
              | tail _ hm => exact s2.roots i hm
            · intro i hi' hi j hj
              by_cases h3 : ms1 i = true
              · by_cases h4 : i = i0
                · subst h4; exact s2.mono j (s1.roots j hj)
                · have : setM ms i0 i = false := by rw [set_other i h4]; exact hi
                  exact s2.mono j (s1.closed i h3 this j hj)
              · exact s2.closed i hi' (by simpa using h3) j hj
            · intro i hi
              rcases s2.sound i hi with h3 | h3
              · rcases s1.sound i h3 with h4 | h4
                · by_cases h5 : i = i0
                  · subst h5; exact Or.inr (.root List.mem_cons_self)
                  · rw [set_other i h5] at h4; exact Or.inl h4
                · exact Or.inr (reach_via List.mem_cons_self h4)
              · exact Or.inr (reach_mono (fun v hv => List.mem_cons_of_mem _ hv) h3)

/-- Headline (C07/C08-shaped): starting from no marks, the recursive marker marks exactly the
    slots reachable from the roots — nothing reachable is missed (so the sweep cannot free live data)
    and nothing unreachable is kept (so the sweep reclaims all garbage), cycles and sharing included. -/
theorem mark_exact (n : Nat) (h : Heap) (roots : List V) (ms' : Marks)
    (hx : markVals n h roots (fun _ => false) = some ms') (i : Nat) :
    ms' i = true ↔ Reach h roots i := by
  have s := mark_spec n h roots _ ms' hx
  constructor
  · intro hi
    rcases s.sound i hi with h1 | h1
    · simp at h1
    · exact h1
  · intro r
    induction r with
    | root hm => exact s.roots _ hm
    | step _ hj ih => exact s.closed _ ih rfl _ hj

-- non-vacuity: a 2-cycle 0 ⇄ 1 with 1 → 2, garbage slot 3 pointing into the live part
def demoHeap : Heap := fun i => match i with
  | 0 => [.ref 1, .n 5] | 1 => [.ref 0, .ref 2] | 2 => [] | 3 => [.ref 0] | _ => []
#eval (markVals 50 demoHeap [.ref 0] (fun _ => false)).map (fun ms => (List.range 5).map ms)
#print axioms mark_exact
