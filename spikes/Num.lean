-- Spike 4: exact shortest round-trip printing of binary64 (Rust `{}` Display) and correctly rounded parsing, Nat only.
namespace Num

/-- decode finite positive bits into (f, e) with value f * 2^e -/
def decode (bits : UInt64) : Nat × Int × Bool :=   -- (mantissa, exponent, isLowerBoundaryCloser)
  let b := bits.toNat
  let frac : Nat := b % (2^52)
  let ex : Nat := (b / 2^52) % 2048
  if ex == 0 then (frac, -1074, false)
  else (frac + 2^52, (ex : Int) - 1075, frac == 0 && ex > 1)

def pow10 (k : Nat) : Nat := 10 ^ k

/-- Burger–Dybvig free-format digit generation; returns digits and k with value = 0.d1d2… × 10^k -/
def shortest (f : Nat) (e : Int) (closer : Bool) : List Nat × Int := Id.run do
  let even := f % 2 == 0
  let mut r := 0; let mut s := 0; let mut mp := 0; let mut mm := 0
  if e ≥ 0 then
    let be := 2 ^ e.toNat
    if !closer then r := f * be * 2; s := 2; mp := be; mm := be
    else r := f * be * 4; s := 4; mp := be * 2; mm := be
  else
    let bne := 2 ^ (-e).toNat
    if !closer then r := f * 2; s := bne * 2; mp := 1; mm := 1
    else r := f * 4; s := bne * 4; mp := 2; mm := 1
  -- find k: smallest with high < 10^k (inclusive) / high ≤ 10^k (exclusive), high = (r+mp)/s
  let tooSmall := fun (r s mp : Nat) => if even then r + mp ≥ s else r + mp > s   -- need larger k
  let mut k : Int := 0
  -- scale up s while high ≥ 10^k
  let mut fuel := 400
  while fuel > 0 && tooSmall r s mp do
    s := s * 10; k := k + 1; fuel := fuel - 1
  -- scale up r while high*10 still fits
  fuel := 400
  while fuel > 0 && !(tooSmall (r*10) s (mp*10)) do
    r := r * 10; mp := mp * 10; mm := mm * 10; k := k - 1; fuel := fuel - 1
  let mut ds : Array Nat := #[]
  fuel := 800
  while fuel > 0 do
    fuel := fuel - 1
    let d := (r * 10) / s
    r := (r * 10) % s
    mp := mp * 10; mm := mm * 10
    let down := if even then r ≤ mm else r < mm
    let up := if even then r + mp ≥ s else r + mp > s
    if !down && !up then
      ds := ds.push d
    else
      let roundUp := up && (!down || r * 2 ≥ s)
      ds := ds.push (if roundUp then d + 1 else d)
      fuel := 0
  -- propagate a possible 10 in the last digit
  let mut out := ds.toList.reverse
  let mut carry := false
  let mut res : List Nat := []
  for d in out do
    let d' := if carry then d + 1 else d
    if d' ≥ 10 then res := (d' - 10) :: res; carry := true
    else res := d' :: res; carry := false
  if carry then res := 1 :: res; k := k + 1
  -- strip trailing zeros produced by carry
  let rec strip : List Nat → List Nat
    | [] => []
    | l => if l.getLast! == 0 && l.length > 1 then strip l.dropLast else l
  termination_by l => l.length
  decreasing_by simp_all [List.length_dropLast]; omega
  return (strip res, k)

def digitChar (d : Nat) : Char := Char.ofNat (48 + d)

/-- Rust `format!("{}", x)` for finite x -/
def display (bits : UInt64) : String :=
  let neg := bits.toNat ≥ 2^63
  let mag : UInt64 := UInt64.ofNat (bits.toNat % 2^63)
  let body :=
    if mag == 0 then "0" else
    let (f, e, c) := decode mag
    let (ds, k) := shortest f e c
    let n := ds.length
    let dstr := String.ofList (ds.map digitChar)
    if k ≤ 0 then "0." ++ String.ofList (List.replicate (-k).toNat '0') ++ dstr
    else if k.toNat < n then String.ofList ((ds.take k.toNat).map digitChar) ++ "." ++ String.ofList ((ds.drop k.toNat).map digitChar)
    else dstr ++ String.ofList (List.replicate (k.toNat - n) '0')
  if neg then "-" ++ body else body

/-- correctly rounded (half-even) value of N / 10^scale as binary64 bits; N > 0 -/
def nearest (N scale : Nat) : UInt64 := Id.run do
  if N == 0 then return 0
  let D := 10 ^ scale
  -- find e with 2^52 ≤ N / (D * 2^e) < 2^53, clamp e ≥ -1074
  let lb := (N.log2 : Int) - (D.log2 : Int) - 52
  let mut e : Int := lb - 2
  let q := fun (e : Int) => if e ≥ 0 then N / (D * 2 ^ e.toNat) else (N * 2 ^ (-e).toNat) / D
  let mut fuel := 8
  while fuel > 0 && q (e + 1) ≥ 2^52 do
    e := e + 1; fuel := fuel - 1
  if e < -1074 then e := -1074
  let (num, den) := if e ≥ 0 then (N, D * 2 ^ e.toNat) else (N * 2 ^ (-e).toNat, D)
  let mut m := num / den
  let rem := num % den
  if rem * 2 > den || (rem * 2 == den && m % 2 == 1) then m := m + 1
  if m == 2^53 then m := 2^52; e := e + 1
  if m < 2^52 then return UInt64.ofNat m          -- subnormal (e = -1074) or zero
  let ex := e + 1075
  if ex ≥ 2047 then return UInt64.ofNat (2047 * 2^52)
  return UInt64.ofNat (ex.toNat * 2^52 + (m - 2^52))

/-- parse a plain decimal `[-]d*[.d*]` -/
def parsePlain (s : String) : UInt64 :=
  let cs := s.toList
  let (neg, cs) := match cs with | '-' :: r => (true, r) | r => (false, r)
  let ip := cs.takeWhile (· != '.')
  let fp := (cs.dropWhile (· != '.')).drop 1
  let N := (ip ++ fp).foldl (fun a c => a * 10 + (c.toNat - 48)) 0
  let b := nearest N fp.length
  if neg then UInt64.ofNat (b.toNat + 2^63) else b

end Num
