import Num
partial def loop (h : IO.FS.Stream) (bad : Nat) (n : Nat) : IO Unit := do
  let line ← h.getLine
  if line.isEmpty then IO.println s!"checked {n} mismatches {bad}"; return ()
  match line.trimAscii.toString.splitOn " " with
  | [b, txt] =>
    let bits := UInt64.ofNat b.toNat!
    let mine := Num.display bits
    let back := Num.parsePlain txt
    let ok := mine == txt && back == bits
    if !ok && bad < 10 then IO.println s!"MISMATCH bits={b} rust={txt} lean={mine} parsed={back}"
    loop h (if ok then bad else bad + 1) (n + 1)
  | _ => loop h bad n
def main : IO Unit := do loop (← IO.getStdin) 0 0
