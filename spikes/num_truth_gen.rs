fn main() {
    let mut s: u64 = 0x9E3779B97F4A7C15;
    let mut next = || { s ^= s << 13; s ^= s >> 7; s ^= s << 17; s };
    let mut emit = |b: u64| { let x = f64::from_bits(b); if x.is_finite() { println!("{} {}", b, x); } };
    // boundaries
    for b in [0u64, 1, 2, 0x000FFFFFFFFFFFFF, 0x0010000000000000, 0x0010000000000001, 0x7FEFFFFFFFFFFFFF, 0x3FF0000000000000,
              0x3FEFFFFFFFFFFFFF, 0x3FF0000000000001, 0x4340000000000000, 0x4340000000000001, 0x433FFFFFFFFFFFFF, 0x8000000000000000,
              0x3FB999999999999A, 0x3FD3333333333334, 0x4024000000000000, 0x4202A05F20000000] { emit(b); }
    for e in 0..2047u64 { emit(e << 52); emit((e << 52) | 1); emit((e << 52) | 0x000FFFFFFFFFFFFF); }
    // random bit patterns
    for _ in 0..150000 { emit(next()); }
    // "human" numbers: small decimals and integers
    for i in 0..20000u64 { let v = (next() % 1000000) as f64 / [1.0,10.0,100.0,1000.0,1e4,1e5,1e6,1e7][(i%8) as usize]; emit(v.to_bits()); emit((-v).to_bits()); }
    for _ in 0..20000 { let a = (next()%2000) as f64 / 7.0; let b = (next()%2000) as f64 * 0.1; emit((a*b).to_bits()); emit((a/ (b+1.0)).to_bits()); emit((a - b).to_bits()); }
}
