"""Shared machinery of the pakhi verification checks: builds, drivers, comparison, evidence."""
import json, os, re, subprocess, sys, time, threading, shutil, hashlib

VERIF = os.path.dirname(os.path.dirname(os.path.abspath(__file__)))
REPO = os.environ.get("PAKHI_REPO", "/repo")
LEAN_DIR = os.path.join(VERIF, "lean")
HARNESS_DIR = os.path.join(VERIF, "harness")
SCRATCH = os.path.join(VERIF, "scratch")
MODEL_BIN = os.path.join(LEAN_DIR, ".lake", "build", "bin", "pakhi_model")
IMPL_BIN = os.environ.get("PAKHI_IMPL_BIN") or os.path.join(HARNESS_DIR, "target", "release", "impl_driver")   # override: tools/coverage.sh
ENV = dict(os.environ, CARGO_NET_OFFLINE="true")

M_REC_START, M_ENT_START, M_ENT_END, M_REC_END = "\ue000", "\ue001", "\ue002", "\ue003"


# ---------------------------------------------------------------------------------------------
# deterministic PRNG: every random choice of a run derives from VERIF_SEED

class Rng:
    def __init__(self, seed):
        self.s = (seed * 0x9E3779B97F4A7C15 + 0x1234567) & 0xFFFFFFFFFFFFFFFF

    def next(self):
        self.s = (self.s + 0x9E3779B97F4A7C15) & 0xFFFFFFFFFFFFFFFF
        z = self.s
        z = ((z ^ (z >> 30)) * 0xBF58476D1CE4E5B9) & 0xFFFFFFFFFFFFFFFF
        z = ((z ^ (z >> 27)) * 0x94D049BB133111EB) & 0xFFFFFFFFFFFFFFFF
        return z ^ (z >> 31)

    def below(self, n):
        return self.next() % n if n > 0 else 0

    def range(self, a, b):
        return a + self.below(b - a + 1)

    def chance(self, p):
        return self.below(1000000) < int(p * 1000000)

    def choice(self, xs):
        return xs[self.below(len(xs))]

    def shuffle(self, xs):
        xs = list(xs)
        for i in range(len(xs) - 1, 0, -1):
            j = self.below(i + 1)
            xs[i], xs[j] = xs[j], xs[i]
        return xs

    def fork(self, tag):
        h = int.from_bytes(hashlib.sha256(f"{self.s}:{tag}".encode()).digest()[:8], "big")
        return Rng(h)


def hx(s):
    b = s.encode("utf-8") if isinstance(s, str) else bytes(s)
    return b.hex() if b else "-"


def unhx(h):
    return "" if h == "-" else bytes.fromhex(h).decode("utf-8", errors="replace")


# ---------------------------------------------------------------------------------------------
# builds

def _no_as_limit():
    """build tools (lake/lean reserve tens of GB of address space for thread stacks, cargo/rustc) must not inherit the
    address-space cap the check puts on its own Python process: under it Lean dies with `failed to create thread`"""
    import resource
    try:
        _, hard = resource.getrlimit(resource.RLIMIT_AS)
        resource.setrlimit(resource.RLIMIT_AS, (hard, hard))
    except Exception:
        pass


def sh(cmd, cwd=None, timeout=3600, env=None):
    p = subprocess.run(cmd, cwd=cwd, shell=isinstance(cmd, str), stdout=subprocess.PIPE,
                       stderr=subprocess.STDOUT, timeout=timeout, env=env or ENV, preexec_fn=_no_as_limit)
    return p.returncode, p.stdout.decode("utf-8", errors="replace")


def build_model(targets):
    """lake build of the model driver and the given theorem modules; returns (ok, log)."""
    rc, out = sh(["lake", "build", "pakhi_model"] + targets, cwd=LEAN_DIR, timeout=3600)
    return rc == 0, out


def build_harness():
    """cargo build of the impl driver against /repo's working tree with the hooks on."""
    env = dict(ENV, RUSTFLAGS="--cfg pakhi_verif", CARGO_TARGET_DIR=os.path.join(HARNESS_DIR, "target"))
    rc, out = sh(["cargo", "build", "--release", "--offline"], cwd=HARNESS_DIR, timeout=3600, env=env)
    return rc == 0, out


def build_pakhi_binary():
    """the command line tool itself (hooks off), into a scratch target dir; returns path or None."""
    tgt = os.path.join(SCRATCH, "pakhi-bin-target")
    env = dict(ENV, CARGO_TARGET_DIR=tgt)
    rc, out = sh(["cargo", "build", "--release", "--offline", "--bin", "pakhi"], cwd=REPO, timeout=3600, env=env)
    p = os.path.join(tgt, "release", "pakhi")
    return (p if rc == 0 and os.path.exists(p) else None), out


# ---------------------------------------------------------------------------------------------
# running the two drivers

def run_model(lines, timeout=1800):
    """answers of the Lean model driver, one per request line"""
    data = ("\n".join(lines) + "\n").encode("utf-8")
    p = subprocess.run([MODEL_BIN], input=data, stdout=subprocess.PIPE, stderr=subprocess.PIPE, timeout=timeout)
    out = p.stdout.decode("utf-8", errors="replace").split("\n")
    if out and out[-1] == "":
        out.pop()
    if len(out) < len(lines):
        out += [f"model-driver-died rc={p.returncode} {p.stderr.decode('utf-8', errors='replace')[:200]}"] * (len(lines) - len(out))
    return out


MAX_DRIVER_FAILURES = 6     # after that many crashes/hangs the remaining cases of a run are not evaluated


def _limit_driver():
    import resource
    try:
        resource.setrlimit(resource.RLIMIT_AS, (4 << 30, 4 << 30))
    except Exception:
        pass
    try:
        import ctypes
        ctypes.CDLL("libc.so.6").prctl(1, 9)     # PR_SET_PDEATHSIG = SIGKILL: never outlive the check
    except Exception:
        pass


def run_impl(case_lines, root, per_line_timeout=10.0):
    """answers of the implementation driver.

    `case_lines` is a list of cases, each a list of request lines.  A crash (abort, stack
    overflow) or a hang of the driver is attributed to the case whose line was being answered;
    that line gets the answer `abort <what>` and the driver is restarted for the next case."""
    import select
    answers = [[None] * len(c) for c in case_lines]
    ci = 0
    failures = 0
    while ci < len(case_lines):
        if failures >= MAX_DRIVER_FAILURES:
            for i in range(ci, len(case_lines)):
                answers[i] = ["abort not-evaluated-after-repeated-driver-failures"] * len(case_lines[i])
            break
        flat = [(i, j) for i in range(ci, len(case_lines)) for j in range(len(case_lines[i]))]
        if not flat:
            break
        proc = subprocess.Popen([IMPL_BIN], stdin=subprocess.PIPE, stdout=subprocess.PIPE, stderr=subprocess.DEVNULL, preexec_fn=_limit_driver)
        reqs = ["ROOT " + hx(root)] + [case_lines[i][j] for (i, j) in flat]

        def feed(proc=proc, reqs=reqs):
            try:
                proc.stdin.write(("\n".join(reqs) + "\n").encode("utf-8"))
                proc.stdin.close()
            except Exception:
                pass
        threading.Thread(target=feed, daemon=True).start()
        fd = proc.stdout.fileno()
        buf = b""
        n = 0                      # answers read so far (answer 0 acknowledges ROOT)
        total = 1 + len(flat)
        died = None
        while n < total:
            nl = buf.find(b"\n")
            if nl < 0:
                r, _, _ = select.select([fd], [], [], per_line_timeout)
                if not r:
                    proc.kill()
                    died = "hang"
                    break
                chunk = os.read(fd, 1 << 16)
                if not chunk:
                    proc.wait()
                    died = f"crash rc={proc.returncode}"
                    break
                buf += chunk
                continue
            line, buf = buf[:nl], buf[nl + 1:]
            if n >= 1:
                i, j = flat[n - 1]
                answers[i][j] = line.decode("utf-8", errors="replace")
            n += 1
        if died is None:
            proc.wait()
            break
        failures += 1
        k = max(n - 1, 0)          # index in flat of the request that was never answered
        i, j = flat[k]
        answers[i][j] = "abort " + died
        for jj in range(j + 1, len(case_lines[i])):
            answers[i][jj] = "abort skipped"
        ci = i + 1
    for i, c in enumerate(answers):
        for j, a in enumerate(c):
            if a is None:
                answers[i][j] = "abort no-answer"
    return answers


# ---------------------------------------------------------------------------------------------
# answer parsing and comparison

def split_spec(line):
    """split a model RUN answer into the flat-model part and the `spec=1` part:
    returns (main_line, {'struct': 'yes'|'no', 'wf': ..., 'line': 'out=.. status=..' or None})"""
    if " struct=" not in line:
        return line, None
    main, rest = line.split(" struct=", 1)
    d = {"struct": rest.split(" ", 1)[0], "wf": None, "line": None}
    m = re.search(r" wf=(yes|no)$", rest)
    if m:
        d["wf"] = m.group(1)
        rest = rest[:m.start()]
    m = re.search(r"specout=(\S+) specstatus=(.*)$", rest)
    if m:
        d["line"] = f"out={m.group(1)} status={m.group(2)}"
    return main, d


SPEC_STATS = {"requests": 0, "structured": 0, "unstructured": 0, "spec_vs_impl_compared": 0, "spec_vs_model_compared": 0, "wf_no": 0}


class RunAns:
    def __init__(self, line):
        line = split_spec(line)[0]
        self.raw = line
        self.out = None
        self.status = None
        self.extra = {}
        m = re.match(r"^out=(\S+) status=(.*)$", line)
        if not m:
            self.status = ["malformed", line]
            return
        self.out = unhx(m.group(1))
        rest = m.group(2).split(" ")
        st = []
        for tok in rest:
            if "=" in tok and re.match(r"^(fs|nlists|nfreeL|nrecords|nfreeR|colls|dupL|dupR)=", tok):
                k, v = tok.split("=", 1)
                self.extra[k] = v
            else:
                st.append(tok)
        self.status = st

    @property
    def kind(self):
        return self.status[0]

    def err_class(self):
        return self.status[1] if self.kind == "err" else None

    def err_line(self):
        return int(self.status[2]) if self.kind == "err" else None

    def err_file(self):
        return unhx(self.status[3]) if self.kind == "err" else None

    def err_msg(self):
        return unhx(self.status[4]) if self.kind == "err" and len(self.status) > 4 else None


def match_template(tpl, text):
    """does `text` equal the model's output `tpl` up to the order of record entries?"""
    # parse template into nodes: str | ('rec', prefix-less list of entry node-lists)
    pos = 0

    def parse_seq(stop):
        nonlocal pos
        nodes = []
        buf = []
        while pos < len(tpl):
            c = tpl[pos]
            if c in stop:
                break
            if c == M_REC_START:
                if buf:
                    nodes.append("".join(buf)); buf = []
                pos += 1
                entries = []
                while pos < len(tpl) and tpl[pos] == M_ENT_START:
                    pos += 1
                    entries.append(parse_seq({M_ENT_END}))
                    pos += 1  # ENT_END
                if pos < len(tpl) and tpl[pos] == M_REC_END:
                    pos += 1
                nodes.append(("rec", entries))
            else:
                buf.append(c)
                pos += 1
        if buf:
            nodes.append("".join(buf))
        return nodes
    nodes = parse_seq(set())

    def m_seq(nodes, i, p):
        """set of end positions after matching nodes[i:] from p"""
        if i == len(nodes):
            return {p}
        n = nodes[i]
        res = set()
        if isinstance(n, str):
            if text.startswith(n, p):
                res |= m_seq(nodes, i + 1, p + len(n))
            return res
        for q in m_rec(n[1], frozenset(range(len(n[1]))), p):
            res |= m_seq(nodes, i + 1, q)
        return res

    def m_rec(entries, remaining, p):
        if not remaining:
            return {p}
        res = set()
        for k in remaining:
            for q in m_seq(entries[k], 0, p):
                res |= m_rec(entries, remaining - {k}, q)
        return res
    return len(text) in m_seq(nodes, 0, 0)


def strip_markers(s):
    return s.replace(M_REC_START, "").replace(M_ENT_START, "").replace(M_ENT_END, "").replace(M_REC_END, "")


def compare_run(model_line, impl_line, cls=True, line=False, file=False, msg=False, extra=(), canon=None):
    """compare one RUN answer; returns None or a description of the difference.
    `canon` canonicalises both outputs first (used where an order is unspecified)"""
    m, i = RunAns(model_line), RunAns(impl_line)
    if canon and m.out is not None and i.out is not None:
        m.out, i.out = canon(m.out), canon(i.out)
    if m.kind in ("malformed", "fuel", "panic") and m.kind != i.kind:
        return f"model status {m.status} vs impl status {i.status}"
    if i.kind in ("abort", "malformed"):
        return f"implementation {impl_line[:200]}"
    if m.kind != i.kind:
        return f"end status: model {' '.join(m.status[:3])} vs impl {' '.join(i.status[:3])}"
    if m.out is not None and i.out is not None and not match_template(m.out, i.out):
        return f"output differs: model {strip_markers(m.out)!r} vs impl {i.out!r}"
    if m.kind == "err":
        if cls and m.err_class() != i.err_class():
            return f"error class: model {m.err_class()} vs impl {i.err_class()}"
        if line and m.err_line() != i.err_line():
            return f"error line: model {m.err_line()} vs impl {i.err_line()}"
        if file and os.path.basename(m.err_file() or "") != os.path.basename(i.err_file() or ""):
            return f"error file: model {m.err_file()} vs impl {i.err_file()}"
        if msg and m.err_msg() != i.err_msg():
            return f"error message: model {m.err_msg()!r} vs impl {i.err_msg()!r}"
    for k in extra:
        if m.extra.get(k) != i.extra.get(k):
            return f"{k}: model {m.extra.get(k)} vs impl {i.extra.get(k)}"
    return None


def compare_exact(model_line, impl_line):
    return None if model_line == impl_line else f"model {model_line[:300]} vs impl {impl_line[:300]}"


def compare_status_class(model_line, impl_line):
    """LEX / PARSE answers: equal on ok; on err only `err <class>` (parse) is compared"""
    a, b = model_line.split(" "), impl_line.split(" ")
    if a[0] == "ok" or b[0] == "ok":
        return compare_exact(model_line, impl_line)
    if a[:2] != b[:2]:
        return f"model {' '.join(a[:3])} vs impl {' '.join(b[:3])}"
    return None


def compare_lex(model_line, impl_line):
    """LEX answers: tokens exactly; an error by class and line"""
    a, b = model_line.split(" "), impl_line.split(" ")
    if a[0] == "ok" or b[0] == "ok":
        return compare_exact(model_line, impl_line)
    if a[:3] != b[:3]:
        return f"model {' '.join(a[:3])} vs impl {' '.join(b[:3])}"
    return None


# ---------------------------------------------------------------------------------------------
# cases

class Case:
    """one correspondence case: request lines, how to compare each answer, and an optional
    extra oracle over the implementation's answers (metamorphic / specification checks)"""

    def __init__(self, name, lines, compare=None, oracle=None, info=None, nontrivial=True):
        self.name = name
        self.lines = lines
        self.compare = compare or [compare_exact] * len(lines)
        if callable(self.compare):
            self.compare = [self.compare] * len(lines)
        self.oracle = oracle
        self.info = info or {}
        self.nontrivial = nontrivial

    def key(self):
        return hashlib.sha256("\n".join(self.lines).encode("utf-8")).hexdigest()


SETUP_PREFIXES = ("ROOT", "RESET", "FILE", "DIR", "BADFILE", "BADNAME")


INTERNAL_EXTRAS = ("nlists", "nfreeL", "nrecords", "nfreeR", "colls", "heap")


def run_cases(cases, root):
    """returns list of (case, model_answers, impl_answers, problems) where problems is a list of
    (kind, text): kind 'model-vs-impl' or 'impl-vs-oracle'"""
    flat = ["ROOT " + hx(root)]
    for c in cases:
        flat += c.lines
    model = run_model(flat)[1:]
    impl = run_impl([c.lines for c in cases], root)
    res = []
    k = 0
    for ci, c in enumerate(cases):
        ma = model[k:k + len(c.lines)]
        k += len(c.lines)
        ia = impl[ci]
        problems = []
        if any(a.startswith("abort not-evaluated") for a in ia):
            res.append((c, ma, ia, []))
            continue
        for j, ln in enumerate(c.lines):
            if ln.startswith(SETUP_PREFIXES):
                continue
            cmp = c.compare[j]
            d = cmp(ma[j], ia[j])
            if d:
                # a difference in the interpreter's *internal* bookkeeping (arena layout, free-list order, collection
                # counters) breaks the tie between model and code but is not by itself a failure of a property:
                # the property-level oracle of the case decides that (see run_check: no-failing-input-found)
                internal = ln.startswith("GC ") or d.split(":")[0] in INTERNAL_EXTRAS
                problems.append(("model-vs-impl-internal" if internal else "model-vs-impl", f"request {j} ({ln.split(' ')[0]}): {d}"))
            if ln.startswith("RUN ") and " spec=1" in ln:
                main, sp = split_spec(ma[j])
                SPEC_STATS["requests"] += 1
                if sp is not None:
                    if sp["wf"] == "no":
                        SPEC_STATS["wf_no"] += 1
                        problems.append(("spec-vs-model", f"request {j}: parser returned a program that is not progWF (contradicts parse_wf)"))
                    if sp["struct"] == "yes" and sp["line"]:
                        SPEC_STATS["structured"] += 1
                        # the structured semantics against the implementation (same comparator as the flat model)
                        d2 = cmp(sp["line"], ia[j])
                        SPEC_STATS["spec_vs_impl_compared"] += 1
                        if d2 and RunAns(sp["line"]).kind != "fuel":
                            problems.append(("spec-vs-impl", f"request {j}: structured semantics vs implementation: {d2}"))
                        # … and against the flat model (the refinement theorem, collection-free runs)
                        if " gc=never" in ln:
                            a, b = RunAns(sp["line"]), RunAns(main)
                            SPEC_STATS["spec_vs_model_compared"] += 1
                            if a.kind != "fuel" and b.kind != "fuel" and (a.out, a.status) != (b.out, b.status):
                                problems.append(("spec-vs-model", f"request {j}: structured semantics {sp['line'][:200]} vs flat model {main[:200]} (contradicts run_refines)"))
                    elif sp["struct"] == "no":
                        SPEC_STATS["unstructured"] += 1
        if c.oracle:
            for d in c.oracle(c, ia, ma) or []:
                problems.append(("impl-vs-oracle", d))
        res.append((c, ma, ia, problems))
    return res


# ---------------------------------------------------------------------------------------------
# known findings, replays, evidence

def load_known():
    p = os.path.join(VERIF, "known_findings.json")
    if not os.path.exists(p):
        return []
    return json.load(open(p, encoding="utf-8"))


def write_replay(prop, case, ma, ia, problems, note=""):
    d = os.path.join(VERIF, "replays")
    os.makedirs(d, exist_ok=True)
    path = os.path.join(d, f"{prop}-{case.key()[:12]}.json")
    doc = {
        "property": prop, "case": case.name, "info": case.info, "note": note,
        "requests": case.lines,
        "requests_decoded": [decode_request(l) for l in case.lines],
        "model_answers": ma, "impl_answers": ia,
        "problems": [{"kind": k, "what": t} for k, t in problems],
        "replay": f"./check {prop} --replay {path}",
    }
    json.dump(doc, open(path, "w", encoding="utf-8"), ensure_ascii=False, indent=1)
    return path


def decode_request(line):
    parts = line.split(" ")
    out = [parts[0]]
    for p in parts[1:]:
        if re.fullmatch(r"[0-9a-f]{2,}", p) and len(p) % 2 == 0:
            try:
                out.append(bytes.fromhex(p).decode("utf-8"))
                continue
            except Exception:
                pass
        out.append(p)
    return out


def write_evidence(prop, tier, seed, coverage, wall, violations, assumptions):
    os.makedirs(os.path.join(VERIF, "evidence"), exist_ok=True)
    doc = {"property_id": prop, "tier": tier, "seed": seed, "level": "proof", "coverage": coverage,
           "assumptions": assumptions, "wall_s": round(wall, 2), "violations": violations}
    json.dump(doc, open(os.path.join(VERIF, "evidence", f"{prop}.json"), "w", encoding="utf-8"),
              ensure_ascii=False, indent=1)
