#!/bin/bash
# Which lines of /repo/src do the quick checks execute?  Builds the implementation driver with source-based coverage
# (nightly toolchain's llvm-tools), runs every quick check against that binary, and lists the uncovered lines per file.
# A diagnostic for the generators (DESIGN §2.6: "print the input distribution"), not part of any registered check.
set -u
cd /verif
TOOLS=/root/.rustup/toolchains/nightly-x86_64-unknown-linux-gnu/lib/rustlib/x86_64-unknown-linux-gnu/bin
TGT=/verif/scratch/cov-target
RAW=/verif/scratch/cov-raw
rm -rf $RAW; mkdir -p $RAW
(cd harness && RUSTFLAGS="--cfg pakhi_verif -C instrument-coverage" CARGO_TARGET_DIR=$TGT CARGO_NET_OFFLINE=true cargo +nightly build --release --offline 2>&1 | tail -2) || exit 1
for i in 01 02 03 04 05 06 07 08 09 10 11 12 13 14 15 16 17 18 19 20; do
  PAKHI_IMPL_BIN=$TGT/release/impl_driver LLVM_PROFILE_FILE="$RAW/c$i-%p-%m.profraw" ./check C$i ${1:-quick} 2>&1 | tail -1 | cut -c1-100
done
$TOOLS/llvm-profdata merge -sparse $RAW/*.profraw -o /verif/scratch/cov.profdata
$TOOLS/llvm-cov report $TGT/release/impl_driver -instr-profile=/verif/scratch/cov.profdata $(ls /repo/src/*/*.rs /repo/src/*.rs) 2>/dev/null | tee /verif/scratch/coverage-summary.txt | tail -15
$TOOLS/llvm-cov show $TGT/release/impl_driver -instr-profile=/verif/scratch/cov.profdata $(ls /repo/src/*/*.rs /repo/src/*.rs) -show-line-counts-or-regions 2>/dev/null > /verif/scratch/coverage-lines.txt
python3 - <<'PY'
import re
cur=None; unc={}
for l in open('/verif/scratch/coverage-lines.txt',encoding='utf-8',errors='replace'):
    m=re.match(r'^(/repo/src/\S+):$', l.strip())
    if m: cur=m.group(1); unc[cur]=[]; continue
    m=re.match(r'^\s*(\d+)\|\s*0\|(.*)$', l)
    if m and cur: unc[cur].append((int(m.group(1)), m.group(2).rstrip()))
for f,ls in unc.items():
    print(f"== {f}: {len(ls)} uncovered lines")
    for n,t in ls: print(f"   {n}: {t[:140]}")
PY
