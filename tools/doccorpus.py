"""Programs the repository itself shows to its users: the fenced code blocks of README.md and user_docs/*.md, the example
programs, and the programs embedded in the test suite (`src_to_ast(vec![ … ])`).  Read from /repo's working tree on every
run and compared model-vs-implementation: the model has to agree with the code on what the documentation promises, in the
documentation's own style of writing (closing returns, trailing commas, comments, Bangla identifiers of every shape)."""
import os, re, glob
import common as C


def md_blocks(path):
    txt = open(path, encoding="utf-8").read()
    return [m.group(1) for m in re.finditer(r"```[^\n]*\n(.*?)```", txt, flags=re.S)]


_STR = re.compile(r'r#"(.*?)"#|"((?:[^"\\]|\\.)*)"', flags=re.S)


def _unescape(s):
    return s.replace('\\"', '"').replace("\\n", "\n").replace("\\t", "\t").replace("\\\\", "\\")


def rs_programs(path):
    txt = open(path, encoding="utf-8").read()
    out = []
    for m in re.finditer(r"src_to_ast\(vec!\[(.*?)\]\s*\)", txt, flags=re.S):
        lines = []
        for s in _STR.finditer(m.group(1)):
            lines.append(s.group(1) if s.group(1) is not None else _unescape(s.group(2)))
        if lines:
            out.append("\n".join(lines))
    return out


def programs(repo=None):
    repo = repo or C.REPO
    progs = []
    for p in [os.path.join(repo, "README.md")] + sorted(glob.glob(os.path.join(repo, "user_docs", "*.md"))):
        if os.path.exists(p):
            progs += [(os.path.relpath(p, repo), b) for b in md_blocks(p)]
    for p in sorted(glob.glob(os.path.join(repo, "example pakhi programs", "*.pakhi"))):
        progs.append((os.path.relpath(p, repo), open(p, encoding="utf-8").read()))
    for p in sorted(glob.glob(os.path.join(repo, "tests", "*.rs"))):
        progs += [(os.path.relpath(p, repo), b) for b in rs_programs(p)]
    seen, out = set(), []
    for o, s in progs:
        # console input is exercised through the real binary with piped stdin (C20), not through the in-process harness
        if s.strip() and s not in seen and len(s) < 20000 and "_\u09b0\u09bf\u09a1-\u09b2\u09be\u0987\u09a8" not in s:
            seen.add(s)
            out.append((o, s))
    return out


def cases():
    from props.base import run_req, cmp_run
    out = []
    for origin, src in programs():
        # started like `pakhi main.pakhi` from inside a fresh sandbox directory: relative paths in the snippets stay inside it
        out.append(C.Case("doc-corpus", ["RESET", run_req(src, spec=1, rel=1)], cmp_run(line=True), None,
                          info={"origin": origin, "src": src[:300]}, nontrivial=False))
    return out
