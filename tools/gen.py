"""Structured Pakhi programs: construction, rendering to tokens, layouts."""
from decimal import Decimal

BN = "০১২৩৪৫৬৭৮৯"
NAMES = ["ক", "খ", "গ", "ঘ", "চ", "ছ", "জ", "ট", "ড", "ত", "থ", "দ", "ন", "প", "ব", "ম", "য", "র", "ল", "শ", "স", "হ"]
KEYWORDS = {"নাম", "যদি", "অথবা", "লুপ", "ফাং", "ফেরত", "থামাও", "আবার", "দেখাও", "_দেখাও", "সত্য", "মিথ্যা", "মডিউল"}


def _canon_table():
    """built-in and type names exactly as the Rust source spells them (code points matter:
    U+09DF vs U+09AF U+09BC), keyed by their NFD form"""
    import unicodedata, os, sys
    sys.path.insert(0, os.path.dirname(os.path.abspath(__file__)))
    # the words as the *model* spells them (lean/Pakhi/Model/Words.lean, generated once by tools/mkwords.py and committed):
    # programs are written in the language the model defines, whatever shape the Rust source has today
    import re
    words = open(os.path.join(os.path.dirname(os.path.dirname(os.path.abspath(__file__))), "lean", "Pakhi", "Model", "Words.lean"), encoding="utf-8").read()
    names = re.findall(r"^/-- `(.+)` -/$", words, flags=re.M)
    return {unicodedata.normalize("NFD", n): n for n in names}


try:
    _CANON = _canon_table()
except Exception:
    _CANON = {}


def canon(name):
    import unicodedata
    return _CANON.get(unicodedata.normalize("NFD", name), name)


def bn_digits(s):
    return "".join(BN[ord(c) - 48] if "0" <= c <= "9" else c for c in s)


def num_text(x):
    """plain decimal Bangla text of a Python int/float/str (no exponent)"""
    if isinstance(x, str):
        return bn_digits(x)
    if isinstance(x, int):
        return bn_digits(str(x))
    t = format(Decimal(repr(float(x))), "f")
    if t.endswith(".0"):
        t = t[:-2]
    return bn_digits(t)


# ---- expressions ---------------------------------------------------------------------------
# ('num', text) ('str', s) ('bool', b) ('var', name) ('bin', op, l, r) ('un', op, e) ('grp', e)
# ('call', callee_expr, [args]) ('idx', e, i) ('list', [es]) ('rec', [(k, v)]) ('raw', [tokens])

def num(x): return ("num", num_text(x))
def s(v): return ("str", canon(v))
def b(v): return ("bool", v)
def var(n): return ("var", canon(n))
def bin_(op, l, r): return ("bin", op, l, r)
def un(op, e): return ("un", op, e)
def grp(e): return ("grp", e)
def call(f, *args): return ("call", var(f) if isinstance(f, str) else f, list(args))
def idx(e, i): return ("idx", e, i)
def lst(*es): return ("list", list(es))
def rec(*kvs): return ("rec", list(kvs))


PREC = {"|": 0, "&": 1, "==": 2, "!=": 2, "<": 3, "<=": 3, ">": 3, ">=": 3, "+": 4, "-": 4, "*": 5, "/": 5, "%": 5}
UNARY_LEVEL, POSTFIX_LEVEL, PRIMARY_LEVEL = 6, 7, 8


def level(e):
    k = e[0]
    if k == "bin":
        return PREC[e[1]]
    if k == "un":
        return UNARY_LEVEL
    if k == "num" and e[1].startswith("-"):
        return UNARY_LEVEL
    if k in ("call",):
        return POSTFIX_LEVEL
    return PRIMARY_LEVEL


def T(text, kind):
    return (text, kind)


# Rendering style (set by `styled`): the plain style writes no trailing commas, no comments and bare conditions; the
# other styles write the same tree the way the documentation and users also write it.  The token kinds / tree are unchanged.
STYLE = {"trailing_comma": False, "comments": False, "paren_cond": False, "braceless_loop": False}


class styled:
    """context manager: render with the given style switches on"""
    def __init__(self, **kw):
        self.kw = kw

    def __enter__(self):
        self.old = dict(STYLE)
        STYLE.update(self.kw)

    def __exit__(self, *a):
        STYLE.clear()
        STYLE.update(self.old)


def toks_expr(e, extra_parens=None):
    """token list of an expression with the minimal parentheses that keep its tree;
    `extra_parens(e)` may ask for redundant ones around any sub-expression"""
    def par(x, need):
        t = go(x)
        if need or (extra_parens and extra_parens(x)):
            return [T("(", "op")] + t + [T(")", "op")]
        return t

    def go(e):
        k = e[0]
        if k == "num":
            return [T(e[1], "num")]
        if k == "str":
            return [T('"' + e[1] + '"', "str")]
        if k == "bool":
            return [T("সত্য" if e[1] else "মিথ্যা", "word")]
        if k == "var":
            return [T(e[1], "word")]
        if k == "raw":
            return list(e[1])
        if k == "grp":
            return [T("(", "op")] + go(e[1]) + [T(")", "op")]
        if k == "bin":
            p = PREC[e[1]]
            l = par(e[2], level(e[2]) < p)
            r = par(e[3], level(e[3]) <= p)
            return l + [T(e[1], "op")] + r
        if k == "un":
            return [T(e[1], "op")] + par(e[2], level(e[2]) < UNARY_LEVEL)
        if k == "call":
            f = e[1]
            # the callee of a call is a primary followed by (…): only identifiers, groups and calls
            ft = par(f, f[0] not in ("var", "grp", "call"))
            out = ft + [T("(", "op")]
            for i, a in enumerate(e[2]):
                if i:
                    out.append(T(",", "op"))
                out += go(a)
            return out + [T(")", "op")]
        if k == "idx":
            base = e[1]
            bt = par(base, base[0] not in ("var", "idx"))
            return bt + [T("[", "op")] + go(e[2]) + [T("]", "op")]
        if k == "list":
            out = [T("[", "op")]
            for i, a in enumerate(e[1]):
                if i:
                    out.append(T(",", "op"))
                out += go(a)
            if STYLE["trailing_comma"] and e[1]:
                out.append(T(",", "op"))
            return out + [T("]", "op")]
        if k == "rec":
            out = [T("@", "op"), T("{", "op")]
            for i, (kk, vv) in enumerate(e[1]):
                if i:
                    out.append(T(",", "op"))
                out += go(kk) + [T("->", "op")] + go(vv)
            if STYLE["trailing_comma"] and e[1]:
                out.append(T(",", "op"))
            return out + [T("}", "op")]
        raise ValueError(k)
    return par(e, False)


# ---- statements ----------------------------------------------------------------------------
# ('print', e) ('printn', e) ('decl', name, e|None) ('assign', name, [index exprs], e) ('expr', e)
# ('block', [stmts]) ('if', [(cond, [stmts])...], else_stmts|None) ('loop', [stmts])
# ('break',) ('continue',) ('func', name, [params], [stmts]) ('return', e|None)
# ('import', alias, path) ('comment', text) ('rawstmt', [tokens])

NL = ("\n", "nl")


def toks_stmt(st, xp=None):
    k = st[0]
    E = lambda e: toks_expr(e, xp)
    semi = [T(";", "op"), NL]
    if k == "print":
        return [T("দেখাও", "word")] + E(st[1]) + semi
    if k == "printn":
        return [T("_দেখাও", "word")] + E(st[1]) + semi
    if k == "decl":
        if st[2] is None:
            return [T("নাম", "word"), T(st[1], "word")] + semi
        return [T("নাম", "word"), T(st[1], "word"), T("=", "op")] + E(st[2]) + semi
    if k == "assign":
        out = [T(st[1], "word")]
        for i in st[2]:
            out += [T("[", "op")] + E(i) + [T("]", "op")]
        return out + [T("=", "op")] + E(st[3]) + semi
    if k == "expr":
        return E(st[1]) + semi
    if k == "block":
        return [T("{", "op"), NL] + toks_stmts(st[1], xp) + [T("}", "op"), NL]
    if k == "if":
        out = []
        for i, (c, body) in enumerate(st[1]):
            if i:
                out.append(T("অথবা", "word"))
            ct = E(c)
            if STYLE["paren_cond"]:
                ct = [T("(", "op")] + ct + [T(")", "op")]
            out += [T("যদি", "word")] + ct + [T("{", "op"), NL] + toks_stmts(body, xp) + [T("}", "op")]
        if st[2] is not None:
            out += [T("অথবা", "word"), T("{", "op"), NL] + toks_stmts(st[2], xp) + [T("}", "op")]
        return out + [NL]
    if k == "loop":
        if STYLE["braceless_loop"]:
            # `লুপ … আবার;` without a block: accepted by the parser (loop start and loop end are statements of their own); the
            # body then has no scope of its own — a different program, used for model-vs-implementation comparison only
            return [T("লুপ", "word"), NL] + toks_stmts(st[1], xp) + [T("আবার", "word")] + semi
        return [T("লুপ", "word"), T("{", "op"), NL] + toks_stmts(st[1], xp) + [T("}", "op"), T("আবার", "word")] + semi
    if k == "break":
        return [T("থামাও", "word")] + semi
    if k == "continue":
        return [T("আবার", "word")] + semi
    if k == "func":
        out = [T("ফাং", "word"), T(st[1], "word"), T("(", "op")]
        for i, p in enumerate(st[2]):
            if i:
                out.append(T(",", "op"))
            out.append(T(p, "word"))
        # ("func", name, params, body[, closing]): `closing` is the operand of the return written after the block
        # (`} ফেরত e;`, the documented style); it is evaluated after the body block has ended, in the parameter scope
        closing = E(st[4]) if len(st) > 4 and st[4] is not None else []
        return out + [T(")", "op"), T("{", "op"), NL] + toks_stmts(st[3], xp) + [T("}", "op"), T("ফেরত", "word")] + closing + semi
    if k == "return":
        if st[1] is None:
            return [T("ফেরত", "word")] + semi
        return [T("ফেরত", "word")] + E(st[1]) + semi
    if k == "import":
        return [T("মডিউল", "word"), T(st[1], "word"), T("=", "op"), T('"' + st[2] + '"', "str")] + semi
    if k == "comment":
        return [T("#" + st[1] + "#", "comment"), NL]
    if k == "rawstmt":
        return list(st[1]) + [NL]
    raise ValueError(k)


def toks_stmts(sts, xp=None):
    out = []
    for i, st in enumerate(sts):
        if STYLE["comments"] and i % 2 == 0 and st[0] != "rawstmt":
            out += [T("# " + "\u09ae\u09a8\u09cd\u09a4\u09ac\u09cd\u09af " * (i % 3) + "#", "comment"), NL] if i % 4 else [T("##", "comment"), NL]
        out += toks_stmt(st, xp)
    return out


# ---- layout --------------------------------------------------------------------------------

def _is_ident_char(c):
    if c in "-_/":
        return True
    o = ord(c)
    if o < 128:
        return c.isalnum()
    return True


def _is_numeric(c):
    o = ord(c)
    return 48 <= o <= 57 or 0x9E6 <= o <= 0x9EF or 0x9F4 <= o <= 0x9F9


def must_separate(a, b):
    """would the texts of two adjacent tokens lex differently when written without a blank?"""
    (ta, ka), (tb, kb) = a, b
    if ka in ("str", "comment") or not ta or not tb:
        return False
    first = tb[0]
    if ka == "word":
        return _is_ident_char(first)
    if ka == "num":
        return _is_numeric(first) or first == "."
    if ta == "-":
        return first == ">" or _is_numeric(first)
    if ta in ("=", "!", "<", ">"):
        return first == "="
    return False


def ends_operand(t):
    """does this token end an operand (so that a following `-digit` is the binary operator, fix F6)?"""
    if t is None:
        return False
    txt, kind = t
    if kind in ("num", "str"):
        return True
    if txt in (")", "]"):
        return True
    return kind == "word" and (txt not in KEYWORDS or txt in ("সত্য", "মিথ্যা"))


def render(tokens, mode="lines", rng=None, keep_lines=False):
    """text of a token list.  modes: 'lines' (one statement per line, single blanks),
    'oneline', 'minimal' (no blank wherever the tokens cannot fuse), 'wild' (random mix of
    blanks, tabs, CR, CRLF and newlines, or nothing where allowed)."""
    out = []
    prev = None
    prev2 = None
    for t in tokens:
        if t[1] == "nl":
            if mode == "lines" or keep_lines:
                out.append("\n")
                prev = None
            continue
        if prev is not None:
            need = must_separate(prev, t)
            # `৫-১`: a `-` directly followed by a digit is the binary operator when the token before it ends an operand
            if need and prev[0] == "-" and prev[1] != "num" and t[1] == "num" and ends_operand(prev2):
                need = False
            if mode == "minimal":
                sep = " " if need else ""
            elif mode == "wild":
                if not need and rng.chance(0.35):
                    sep = ""
                else:
                    n = rng.range(1, 3)
                    sep = "".join(rng.choice([" ", " ", "\t", "\r", "\r\n", "\n", "  "]) for _ in range(n))
                    if keep_lines:
                        sep = sep.replace("\n", " ")
            else:
                sep = " "
            out.append(sep)
        out.append(t[0])
        prev2 = prev
        prev = t
    return "".join(out)


def source(prog, mode="lines", rng=None, xp=None):
    return render(toks_stmts(prog, xp), mode, rng)
