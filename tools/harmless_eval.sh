#!/bin/bash
# harmless_eval.sh <Hxx> : a behaviour-preserving refactoring delivered in /tmp/wt-<Hxx>/seeded; store it under
# /verif/harmless/<Hxx>/, apply it to /repo, run EVERY property's quick check, report every VIOLATION line, restore /repo.
set -u
P=$1
WT=/tmp/wt-$P
OUT=/verif/harmless/$P
mkdir -p $OUT
cd $WT || exit 1
git add -N src 2>/dev/null; git diff -- src > $OUT/patch.diff
cp seeded/meta.json $OUT/ 2>/dev/null
echo "== tests with the change"
RUSTFLAGS=-Awarnings cargo test --offline 2>&1 | grep -E "^test result|FAILED|panicked" | sort | uniq -c | grep -v " 0 passed"
cd /repo && git apply $OUT/patch.diff || { echo "patch does not apply to /repo"; exit 1; }
cd /verif
: > $OUT/checks.txt
for i in 01 02 03 04 05 06 07 08 09 10 11 12 13 14 15 16 17 18 19 20; do
  ./check C$i quick > /tmp/harmless-$P-C$i.log 2>&1; rc=$?
  nv=$(grep -c '^VIOLATION' /tmp/harmless-$P-C$i.log); nf=$(grep -c 'no-failing-input-found' /tmp/harmless-$P-C$i.log)
  echo "C$i exit=$rc violations=$nv without-input=$nf : $(tail -1 /tmp/harmless-$P-C$i.log | cut -c1-110)" >> $OUT/checks.txt
  if [ $rc -ne 0 ]; then echo "C$i exit=$rc violations=$nv without-input=$nf"; grep -m2 -A3 '^VIOLATION' /tmp/harmless-$P-C$i.log | cut -c1-400; fi
done
git -C /repo checkout -- . ; git -C /repo clean -fdq src ; git -C /repo status --short | head -3
rm -rf /verif/replays
echo "== $P done: $(grep -c 'exit=0' $OUT/checks.txt)/20 checks quiet"
