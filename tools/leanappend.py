#!/usr/bin/env python3
"""append the body of a scratch Lean file (between the `variable (P ...)` line and the final `end\nend Pakhi`)
to a module that ends the same way"""
import sys
mod, scratch = sys.argv[1], sys.argv[2]
m = open(mod).read()
s = open(scratch).read()
marker = 'variable (P : Nat → List Str → Prop)\n'
body = s.split(marker, 1)[1].rsplit('end\nend Pakhi', 1)[0]
m = m.rsplit('end\nend Pakhi', 1)[0] + body + 'end\nend Pakhi\n'
open(mod, 'w').write(m)
