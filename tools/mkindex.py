#!/usr/bin/env python3
"""regenerate the `theorems` lists of props_index.json from lean/Pakhi/Props/C*.lean (trusted_base kept)"""
import json, os, re
V = os.path.dirname(os.path.dirname(os.path.abspath(__file__)))
idx = json.load(open(os.path.join(V, "props_index.json"), encoding="utf-8"))
for prop in sorted(idx):
    txt = open(os.path.join(V, "lean", "Pakhi", "Props", prop + ".lean"), encoding="utf-8").read()
    txt = re.sub(r"/-.*?-/", "", txt, flags=re.S)
    names = re.findall(r"^theorem\s+([A-Za-z_][A-Za-z0-9_'.]*)", txt, flags=re.M)
    idx[prop]["theorems"] = [f"Pakhi.{prop}.{n}" for n in names]
    print(prop, len(names))
json.dump(idx, open(os.path.join(V, "props_index.json"), "w", encoding="utf-8"), indent=1, ensure_ascii=False)
