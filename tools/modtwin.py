"""Module twins of generated programs: the same program, run as an imported module — twice, under two aliases.

A run-only program P of a check is written to `lib/p.pakhi` in a fresh sandbox and run through the main program
`মডিউল ম = "lib/p.pakhi"; মডিউল মম = "lib/p.pakhi";`.  The import step qualifies every user identifier of P with the alias — a
consistent injective renaming that fixes the built-in names (Props/C14 `qualified_program_same_outcome`) — and splices P's
statements, with their own file name and line numbers, into the main program; the second import is a second, independent copy of
the same text (same file name, same line numbers, other names).  The twin is compared model-vs-implementation (output, end status,
error class, line and file) and implementation-vs-implementation with the direct run: P's output twice (once, then the error, when
P fails).  Everything a check exercises — expressions, chains, loops, calls, containers, collections, printing, faults — is thereby
also exercised with qualified names, across a file boundary, with per-file line numbers and with two copies of every statement."""
import common as C

HEAD, TAIL = "মূল\n", "মূলে ফেরা\n"
MAIN = ('দেখাও "মূল";\n'
        'মডিউল ম = "lib/p.pakhi";\n'
        'মডিউল মম = "lib/p.pakhi";\n'
        'দেখাও "মূলে ফেরা";\n')
SKIP_WORDS = ("_ডাইরেক্টরি",      # _ডাইরেক্টরি: differs between the two runs by design
              "মডিউল",                                  # মডিউল: relative import paths
              "_রাইট", "_ডিলিট", "_ক্রিয়েট", "_ক্রিযে")   # file-system writers: the second copy sees the first copy's files


def variants(cases, limit, root, skip_names=()):
    def ok(c):
        if c.info.get("skip") or c.name in skip_names or "/" in c.name or not c.lines:
            return False
        if not all(l.startswith("RUN ") for l in c.lines):
            return False
        return len({l.split(" ")[1] for l in c.lines}) == 1          # one program (possibly under several run options)
    elig = [c for c in cases if ok(c)]
    first = [c for c in elig if c.name == "name-collision"]            # one name in two roles, as a module: always
    rest = [c for c in elig if c.name != "name-collision"]
    step = max(1, len(rest) // max(1, limit))
    out = []
    for c in first + rest[::step][:limit]:
        src = C.unhx(c.lines[0].split(" ")[1])
        if any(w in src for w in SKIP_WORDS):
            continue
        lines = ["RESET", "FILE " + C.hx(root + "/lib/p.pakhi") + " " + C.hx(src), c.lines[0]]
        cmps = [C.compare_exact, C.compare_exact, c.compare[0]]
        for l, cmp0 in list(zip(c.lines, c.compare))[:4]:
            opts = [p for p in l.split(" ")[2:] if not p.startswith(("spec=", "rel="))]
            lines.append(" ".join(["RUN", C.hx(MAIN)] + opts))
            cmps.append(lambda m, i, f=cmp0: f(m, i) or C.compare_run(m, i, line=True, file=True))

        def orc(case, impl, model):
            a = C.RunAns(impl[2])
            if a.kind in ("abort", "malformed", "fuel"):
                return []
            probs = []
            for j in range(3, len(impl)):
                b = C.RunAns(impl[j])
                if b.kind in ("abort", "malformed", "fuel"):
                    continue
                want = HEAD + (a.out or "") * (2 if a.kind == "ok" else 1) + (TAIL if a.kind == "ok" else "")
                if (b.out or "") != want and not C.match_template(C.RunAns(model[j]).out or "", b.out or ""):
                    probs.append(f"imported twice the program prints {b.out!r}, run directly {a.out!r}")
                if a.kind != b.kind or (a.kind == "err" and a.err_class() != b.err_class()):
                    probs.append(f"run as a module the program ends with {' '.join(b.status[:2])}, run directly with {' '.join(a.status[:2])}")
                elif a.kind == "err" and a.err_line() and a.err_line() != b.err_line():
                    probs.append(f"run as a module the error is reported on line {b.err_line()}, run directly on line {a.err_line()} (same file text)")
                if probs:
                    break
            return probs

        out.append(C.Case(c.name + "/as-module", lines, compare=cmps, oracle=orc, info={"module_twin_of": c.name}, nontrivial=False))
    return out
