"""Random, terminating, mostly well-typed Pakhi programs built from the structured forms of gen.py.

Every loop is guarded by its own counter (incremented first in the body), recursion by a
decreasing argument, so generated programs terminate on the unchanged tree; the harness still
runs them under a step limit."""
import gen as G


class Scope:
    def __init__(self, parent=None):
        self.vars = {}      # name -> type ('num','bool','str','list','rec','nil','any')
        self.parent = parent

    def visible(self):
        out = {}
        s = self
        chain = []
        while s:
            chain.append(s)
            s = s.parent
        for s in reversed(chain):
            out.update(s.vars)
        return out


class ProgGen:
    def __init__(self, rng, max_depth=3, names=None, funcs=True, containers=True, loops=True,
                 ifs=True, blocks=True, prefix="", effects=True):
        self.r = rng
        self.max_depth = max_depth
        self.names = [prefix + n for n in (names or G.NAMES[:6])]
        self.fnames = [prefix + "ফ" + G.bn_digits(str(i)) for i in range(1, 5)]
        self.cnames = [prefix + "গণ" + G.bn_digits(str(i)) for i in range(1, 40)]
        self.counter_i = 0
        self.use_funcs = funcs
        self.use_containers = containers
        self.use_loops = loops
        self.use_ifs = ifs
        self.use_blocks = blocks
        self.funcs = {}     # name -> (params, returns type)
        self.stats = {}
        # effectful helpers: a global counter (and a global log list) that generated functions bump / append to, so that calls in
        # operand, argument, element, index and condition positions have observable effects (evaluation order, re-entrancy)
        self.use_effects = effects and funcs
        self.eff_counter = prefix + "চিহ্ন"
        self.eff_log = prefix + "খাতা"

    def bump(self, k):
        self.stats[k] = self.stats.get(k, 0) + 1

    # ---- expressions -------------------------------------------------------------------
    def num_lit(self):
        r = self.r
        k = r.below(10)
        if k < 5:
            return G.num(r.below(10))
        if k < 7:
            return G.num(r.range(10, 500))
        if k == 7:
            return G.num(r.choice(["0.5", "1.25", "2.28", "0.1", "10.75", "3.0"]))
        if k == 8:
            return G.num(-r.range(1, 9))
        return G.num(r.choice(["0", "1", "2"]))

    def str_lit(self):
        return G.s(self.r.choice(["", "ক", "খগ", "a", "bc", "পাখি", "x y", "১২"]))

    def expr(self, ty, sc, depth=0):
        """an expression of type `ty` that evaluates without error in scope `sc`"""
        r = self.r
        vis = [n for n, t in sc.visible().items() if t == ty]
        leaf = depth >= self.max_depth or r.chance(0.3)
        if ty == "num":
            if leaf:
                if vis and r.chance(0.5):
                    return G.var(r.choice(vis))
                return self.num_lit()
            k = r.below(10)
            if k < 6:
                op = r.choice(["+", "-", "*", "+", "-"])
                return G.bin_(op, self.expr("num", sc, depth + 1), self.expr("num", sc, depth + 1))
            if k == 6:
                return G.bin_(r.choice(["/", "%"]), self.expr("num", sc, depth + 1), G.num(r.range(1, 7)))
            if k == 7:
                return G.un("-", self.expr("num", sc, depth + 1))
            if k == 8:
                return G.grp(self.expr("num", sc, depth + 1))
            fs = [f for f, (ps, rt) in self.funcs.items() if rt == "num"]
            if fs and self.use_funcs:
                f = r.choice(fs)
                return G.call(f, *[self.expr("num", sc, depth + 1) for _ in self.funcs[f][0]])
            return self.num_lit()
        if ty == "bool":
            if leaf:
                if vis and r.chance(0.5):
                    return G.var(r.choice(vis))
                return G.b(r.chance(0.5))
            k = r.below(8)
            if k < 3:
                op = r.choice(["<", "<=", ">", ">=", "==", "!="])
                return G.bin_(op, self.expr("num", sc, depth + 1), self.expr("num", sc, depth + 1))
            if k < 5:
                return G.bin_(r.choice(["&", "|"]), self.expr("bool", sc, depth + 1), self.expr("bool", sc, depth + 1))
            if k == 5:
                return G.un("!", self.expr("bool", sc, depth + 1))
            if k == 6:
                return G.bin_(r.choice(["==", "!="]), self.expr("str", sc, depth + 1), self.expr("str", sc, depth + 1))
            return G.grp(self.expr("bool", sc, depth + 1))
        if ty == "str":
            if leaf:
                if vis and r.chance(0.5):
                    return G.var(r.choice(vis))
                return self.str_lit()
            if r.chance(0.7):
                return G.bin_("+", self.expr("str", sc, depth + 1), self.expr("str", sc, depth + 1))
            return G.call("_স্ট্রিং", self.expr("num", sc, depth + 1))
        if ty == "list":
            if vis and r.chance(0.5):
                return G.var(r.choice(vis))
            n = r.below(4)
            return G.lst(*[self.expr(r.choice(["num", "str", "bool"]), sc, depth + 1) for _ in range(n)])
        return self.num_lit()

    # ---- statements --------------------------------------------------------------------
    def fresh_counter(self):
        self.counter_i += 1
        return self.cnames[self.counter_i % len(self.cnames)] + G.bn_digits(str(self.counter_i))

    def stmts(self, sc, n, depth, in_loop=False, in_func=None):
        out = []
        for _ in range(n):
            out += self.stmt(sc, depth, in_loop, in_func)
        return out

    def print_visible(self, sc):
        vis = [n for n, t in sc.visible().items() if t in ("num", "bool", "str", "list")]
        if not vis:
            return [("print", self.num_lit())]
        return [("print", G.var(self.r.choice(vis)))]

    def stmt(self, sc, depth, in_loop=False, in_func=None):
        r = self.r
        k = r.below(100)
        deep = depth >= self.max_depth
        if k < 22:
            self.bump("print")
            if r.chance(0.5):
                return self.print_visible(sc)
            return [("print" if r.chance(0.8) else "printn", self.expr(r.choice(["num", "bool", "str"]), sc))]
        if k < 40:
            self.bump("decl")
            ty = r.choice(["num", "num", "bool", "str"] + (["list"] if self.use_containers else []))
            name = r.choice(self.names)
            e = self.expr(ty, sc)
            sc.vars[name] = ty
            return [("decl", name, e)]
        if k < 55:
            vis = sc.visible()
            cands = [n for n, t in vis.items() if t in ("num", "bool", "str")]
            if not cands:
                return self.stmt(sc, depth, in_loop, in_func)
            self.bump("assign")
            name = r.choice(cands)
            return [("assign", name, [], self.expr(vis[name], sc))]
        if k < 68 and self.use_ifs and not deep:
            self.bump("if")
            nb = r.range(1, 3)
            branches = []
            for _ in range(nb):
                branches.append((self.expr("bool", sc), self.stmts(Scope(sc), r.range(0, 3), depth + 1, in_loop, in_func)))
            els = self.stmts(Scope(sc), r.range(0, 2), depth + 1, in_loop, in_func) if r.chance(0.5) else None
            return [("if", branches, els)]
        if k < 78 and self.use_loops and not deep:
            self.bump("loop")
            c = self.fresh_counter()
            limit = r.range(0, 4)
            inner = Scope(sc)
            body = [("if", [(G.bin_(">=", G.var(c), G.num(limit)), [("break",)])], None),
                    ("assign", c, [], G.bin_("+", G.var(c), G.num(1)))]
            body += self.stmts(inner, r.range(0, 3), depth + 1, True, in_func)
            if r.chance(0.3):
                body.append(("if", [(self.expr("bool", inner), [r.choice([("break",), ("continue",)])])], None))
                body += self.stmts(inner, r.range(0, 2), depth + 1, True, in_func)
            return [("decl", c, G.num(0)), ("loop", body)]
        if k < 84 and self.use_blocks and not deep:
            self.bump("block")
            return [("block", self.stmts(Scope(sc), r.range(1, 3), depth + 1, in_loop, in_func))]
        if k < 88 and in_loop and r.chance(0.5):
            self.bump("break/continue")
            return [("if", [(self.expr("bool", sc), [r.choice([("break",), ("continue",)])])], None)]
        if k < 92 and in_func is not None:
            self.bump("return")
            return [("if", [(self.expr("bool", sc), [("return", self.expr(in_func, sc))])], None)]
        if k < 96 and self.use_funcs and self.funcs:
            self.bump("call-stmt")
            f = r.choice(list(self.funcs))
            return [("expr", G.call(f, *[self.expr("num", sc) for _ in self.funcs[f][0]]))]
        return self.print_visible(sc)

    def function(self, sc, name):
        r = self.r
        params = [self.names[i] for i in range(r.below(3))]
        psc = Scope(sc)                 # the parameter scope (what the return written after the block can see)
        for p in params:
            psc.vars[p] = "num"
        fsc = Scope(psc)                # the body block
        body = self.stmts(fsc, r.range(1, 4), 1, False, "num")
        if self.use_effects and r.chance(0.6):
            eff = [("assign", self.eff_counter, [], G.bin_("+", G.var(self.eff_counter), G.num(1)))]
            if self.use_containers and r.chance(0.5):
                eff.append(("expr", G.call("_লিস্ট-পুশ", G.var(self.eff_log), G.var(self.eff_counter))))
            k = r.below(len(body) + 1)
            body = body[:k] + eff + body[k:]
            self.bump("effectful-function")
        if r.chance(0.4):
            # the documented style: the value is the operand of the return written after the block (`} ফেরত e;`); the body may
            # be empty, or leave early through a return of its own
            self.bump("closing-return")
            if r.chance(0.25):
                body = [st for st in body if st[0] == "assign" and st[1] == self.eff_counter][:1]
            closing = self.expr("num", psc)
            self.funcs[name] = (params, "num")      # registered last: generated functions never call themselves
            return ("func", name, params, body, closing)
        body.append(("return", self.expr("num", fsc)))
        self.funcs[name] = (params, "num")
        return ("func", name, params, body)

    def program(self, n_stmts=8, n_funcs=None):
        sc = Scope()
        prog = []
        if self.use_effects:
            prog.append(("decl", self.eff_counter, G.num(0)))
            sc.vars[self.eff_counter] = "num"
            if self.use_containers:
                prog.append(("decl", self.eff_log, G.lst()))
                sc.vars[self.eff_log] = "list"
        if self.use_funcs:
            nf = self.r.below(3) if n_funcs is None else n_funcs
            for i in range(nf):
                prog.append(self.function(sc, self.fnames[i]))
        prog += self.stmts(sc, n_stmts, 0)
        if self.use_effects:
            prog.append(("print", G.var(self.eff_counter)))
            if self.use_containers:
                prog.append(("print", G.var(self.eff_log)))
        return prog
