"""C01 — expressions evaluate to the value their operator tree denotes."""
import math
import common as C
import gen as G
from props.C09 import plain, bits

RULE = ("typed random expression trees (depth <= 6 quick / <= 10 thorough) over all 13 binary and 2 unary operators, "
        "literals (0, -0 via negation, fractions, 2^53+1, 1e300, negative, empty string/list, Bangla strings), variables of "
        "every type and pure user functions; about 30% ill-typed by construction; rendered with minimal, redundant and "
        "full parentheses under random layouts. The printed line / error class is compared with the Lean model and, "
        "independently, with a Python evaluation of the tree (the tree denotation). Non-trivial: >= 2 operators."
        ' Shared name-collision family (props/collisions.py): 24 scenarios in which one name is bound more than once, x 2 layouts.')
ASSUMPTIONS = ["hardware IEEE-754 arithmetic equals Python's float arithmetic and math.fmod", "see C09 for number printing"]
default_compare = lambda m, i: C.compare_run(m, i, line=True)

PRELUDE = ('নাম ক = ৫;\nনাম খ = "পা";\nনাম গ = সত্য;\nনাম ঘ = [১, ২];\nনাম ঙ = ২.৫;\nনাম চ = []; নাম ছ = ০.১; নাম জ = ৯০০৭১৯৯২৫৪৭৪০৯৯২; নাম শূ; নাম নথি = @{"k" -> ১};\n'
           'ফাং দ্বিগুণ(x) { ফেরত x * ২; } ফেরত;\nফাং যোগ(a, b) { ফেরত a + b; } ফেরত;\nফাং উল্টো(b) { ফেরত !b; } ফেরত;\n'
           # the caller's own variables named like the functions' parameters (arguments are evaluated in the CALLER's scopes)
           'নাম a = ১০; নাম b = ৩; নাম x = ৭;\n')
VARS = {"ক": ("num", 5.0), "খ": ("str", "পা"), "গ": ("bool", True), "ঘ": ("list", 1, [("num", 1.0), ("num", 2.0)]),
        "ঙ": ("num", 2.5), "চ": ("list", 2, []), "ছ": ("num", 0.1), "জ": ("num", 9007199254740992.0),
        "a": ("num", 10.0), "b": ("num", 3.0), "x": ("num", 7.0)}
PRELUDE_LINES = PRELUDE.count("\n")


class TypeErr(Exception):
    """`line` is the line of the function definition when the fault arises inside a callee"""
    def __init__(self, line=None):
        self.line = line


FUNC_LINE = {"দ্বিগুণ": 7, "যোগ": 8, "উল্টো": 9}


class Eval:
    def __init__(self):
        self.next_id = 100

    def ev(self, e):
        k = e[0]
        if k == "num":
            t = e[1].translate(str.maketrans(G.BN, "0123456789"))
            return ("num", float(t))
        if k == "str":
            return ("str", e[1])
        if k == "bool":
            return ("bool", e[1])
        if k == "var":
            return VARS[e[1]]
        if k == "grp":
            return self.ev(e[1])
        if k == "list":
            vals = [self.ev(x) for x in e[1]]
            self.next_id += 1
            return ("list", self.next_id, vals)
        if k == "un":
            v = self.ev(e[2])
            if e[1] == "-" and v[0] == "num":
                return ("num", v[1] * -1.0)
            if e[1] == "!" and v[0] == "bool":
                return ("bool", not v[1])
            raise TypeErr()
        if k == "call":
            f = e[1][1]
            args = [self.ev(a) for a in e[2]]
            try:
                if f == "দ্বিগুণ":
                    return self.binop("*", args[0], ("num", 2.0))
                if f == "যোগ":
                    return self.binop("+", args[0], args[1])
                if f == "উল্টো":
                    if args[0][0] != "bool":
                        raise TypeErr()
                    return ("bool", not args[0][1])
            except TypeErr:
                raise TypeErr(FUNC_LINE[f])
        if k == "bin":
            op = e[1]
            if op in ("&", "|", "*", "/", "%"):
                r = self.ev(e[3]); l = self.ev(e[2])
            else:
                l = self.ev(e[2]); r = self.ev(e[3])
            return self.binop(op, l, r)
        raise ValueError(k)

    def binop(self, op, l, r):
        if op in ("&", "|"):
            if l[0] == "bool" and r[0] == "bool":
                return ("bool", (l[1] and r[1]) if op == "&" else (l[1] or r[1]))
            raise TypeErr()
        if op in ("==", "!="):
            if l[0] != r[0]:
                eq = False
            elif l[0] == "list":
                eq = l[1] == r[1]
            else:
                eq = l[1] == r[1]
            return ("bool", eq if op == "==" else not eq)
        if op in ("<", "<=", ">", ">="):
            if l[0] == "num" and r[0] == "num":
                a, b = l[1], r[1]
                return ("bool", {"<": a < b, "<=": a <= b, ">": a > b, ">=": a >= b}[op])
            raise TypeErr()
        if op in ("+", "-"):
            if l[0] == "num" and r[0] == "num":
                return ("num", l[1] + r[1] if op == "+" else l[1] - r[1])
            if l[0] == "str" and r[0] == "str" and op == "+":
                return ("str", l[1] + r[1])
            if l[0] == "list" and r[0] == "list" and op == "+":
                self.next_id += 1
                return ("list", self.next_id, l[2] + r[2])
            raise TypeErr()
        if l[0] == "num" and r[0] == "num":
            a, b = l[1], r[1]
            if op == "*":
                return ("num", a * b)
            if op == "/":
                if b == 0:
                    if a == 0 or a != a:
                        return ("num", float("nan"))
                    return ("num", math.copysign(float("inf"), a) * math.copysign(1.0, b))
                return ("num", a / b)
            if b == 0 or a in (float("inf"), float("-inf")) or a != a or b != b:
                return ("num", float("nan"))
            return ("num", math.fmod(a, b))
        raise TypeErr()


def render_val(v):
    if v[0] == "num":
        x = v[1]
        if x != x or x in (float("inf"), float("-inf")):
            return None
        return G.bn_digits(plain(x))
    if v[0] == "bool":
        return "সত্য" if v[1] else "মিথ্যা"
    if v[0] == "str":
        return v[1]
    parts = [render_val(x) for x in v[2]]
    if any(p is None for p in parts):
        return None
    return "[" + ", ".join(parts) + "]"


class ExprGen:
    def __init__(self, rng, maxd):
        self.r = rng
        self.maxd = maxd
        self.nops = 0

    def lit(self, ty):
        r = self.r
        if ty == "num":
            return r.choice([G.num(0), G.num(1), G.num(2), G.num(3), G.num(7), G.num(10), G.num("0.1"), G.num("0.5"),
                             G.num("2.25"), G.num("9007199254740993"), G.num("1" + "0" * 300), G.num(100), G.num(-3), G.num("-0.5"),
                             G.var("ক"), G.var("ঙ"), G.un("-", G.num(0)), G.var("ছ"), G.var("জ"), G.num("0.2"), G.num("0.3")])
        if ty == "bool":
            return r.choice([G.b(True), G.b(False), G.var("গ")])
        if ty == "str":
            return r.choice([G.s(""), G.s("ক"), G.s("পাখি"), G.s("a b"), G.var("খ")])
        return r.choice([G.lst(), G.lst(G.num(1)), G.var("ঘ"), G.var("চ"), G.lst(G.s("x"), G.b(True))])

    def gen(self, ty, d, illtyped):
        r = self.r
        if d >= self.maxd or r.chance(0.18):
            if illtyped and r.chance(0.3):
                ty = r.choice(["num", "bool", "str", "list"])
            return self.lit(ty)
        self.nops += 1
        sub = lambda t: self.gen(t, d + 1, illtyped)
        wrong = illtyped and r.chance(0.12)
        if ty == "num":
            k = r.below(12)
            if k < 8:
                op = r.choice(["+", "-", "*", "/", "%", "+", "-", "*"])
                return G.bin_(op, sub("num"), sub("str" if wrong else "num"))
            if k == 8:
                return G.un("-", sub("bool" if wrong else "num"))
            if k == 9:
                return G.grp(sub("num"))
            if k == 10:
                return G.call("দ্বিগুণ", sub("num"))
            return G.call("যোগ", sub("num"), sub("num"))
        if ty == "bool":
            k = r.below(12)
            if k < 3:
                return G.bin_(r.choice(["<", "<=", ">", ">="]), sub("num"), sub("str" if wrong else "num"))
            if k < 6:
                t = r.choice(["num", "bool", "str", "list"])
                return G.bin_(r.choice(["==", "!="]), sub(t), sub(r.choice(["num", "str"]) if wrong or r.chance(0.2) else t))
            if k < 9:
                return G.bin_(r.choice(["&", "|"]), sub("bool"), sub("num" if wrong else "bool"))
            if k == 9:
                return G.un("!", sub("num" if wrong else "bool"))
            if k == 10:
                return G.call("উল্টো", sub("bool"))
            return G.grp(sub("bool"))
        if ty == "str":
            if r.chance(0.8):
                return G.bin_("-" if wrong else "+", sub("str"), sub("str"))
            return G.grp(sub("str"))
        if r.chance(0.7):
            return G.bin_("+", sub("list"), sub("num" if wrong else "list"))
        return G.lst(*[sub(r.choice(["num", "str", "bool"])) for _ in range(r.below(3))])


def oracle(case, impl, model):
    a = C.RunAns(impl[0])
    want = case.info["want"]
    if want == "TYPEERROR":
        if a.kind != "err" or a.err_class() != "type":
            return [f"ill-typed expression: expected a type error, got {a.status[:2]} out={a.out!r}"]
        wl = case.info.get("errline") or PRELUDE_LINES + 1
        if a.err_line() != wl:
            return [f"type error reported at line {a.err_line()}, the failing statement is on line {wl}"]
        return []
    if want is None:
        return []
    if a.kind != "ok" or a.out != want + "\n":
        return [f"tree denotes {want!r}, program printed {a.out!r} status {a.status[:3]}"]
    return []


def cases(rng, tier, stats):
    out = []
    n = 40000 if tier == "thorough" else 1500
    maxd = 10 if tier == "thorough" else 6
    hist = {"ok": 0, "typeerr": 0, "unprintable": 0}
    ops_hist = {}
    for i in range(n):
        r = rng.fork(f"e{i}")
        g = ExprGen(r, r.range(2, maxd))
        ill = r.chance(0.3)
        e = g.gen(r.choice(["num", "num", "bool", "bool", "str", "list"]), 0, ill)
        wline = None
        try:
            v = Eval().ev(e)
            want = render_val(v)
            hist["ok" if want is not None else "unprintable"] += 1
        except TypeErr as ex:
            want = "TYPEERROR"
            wline = ex.line
            hist["typeerr"] += 1
        pm = r.below(3)
        xp = None if pm == 0 else (lambda x, r=r: x[0] in ("bin", "un") and r.chance(0.4)) if pm == 1 else (lambda x: x[0] in ("bin", "un", "num", "var", "call"))
        toks = G.toks_stmt(("print", e), xp)
        line = G.render(toks, r.choice(["oneline", "minimal", "wild"]), r, keep_lines=True)
        src = PRELUDE + line.replace("\n", " ") + "\n"
        ops_hist[min(g.nops, 12)] = ops_hist.get(min(g.nops, 12), 0) + 1
        out.append(C.Case("expr", ["RUN " + C.hx(src)], default_compare, oracle,
                          info={"src": src, "want": want, "ops": g.nops, "errline": wline}, nontrivial=g.nops >= 2))
    # precedence / associativity table: every ordered pair of binary operators on fixed operands
    ops = ["|", "&", "==", "!=", "<", "<=", ">", ">=", "+", "-", "*", "/", "%"]
    pools = [[G.num(7), G.num(2), G.num(3)], [G.b(True), G.b(False), G.b(True)], [G.num(8), G.b(True), G.num(3)]]
    for o1 in ops:
        for o2 in ops:
            for (a, b_, c) in pools:
                for shape in (0, 1):
                    e = G.bin_(o2, G.bin_(o1, a, b_), c) if shape == 0 else G.bin_(o1, a, G.bin_(o2, b_, c))
                    try:
                        want = render_val(Eval().ev(e))
                    except TypeErr:
                        want = "TYPEERROR"
                    src = PRELUDE + G.render(G.toks_stmt(("print", e)), "minimal") + "\n"
                    out.append(C.Case("op-pair", ["RUN " + C.hx(src)], default_compare, oracle, info={"src": src, "want": want}))
    # rounding-sensitive chains: `x o1 a o2 b` is `(x o1 a) o2 b` — double arithmetic is not associative, so any
    # re-association (constant folding of the literal tail, operand reordering) shows on these values.  The leftmost operand
    # comes from every source (variable, call, group, literal), the two others are literals
    lefts = [G.var("ছ"), G.var("জ"), G.call("দ্বিগুণ", G.num("0.05")), G.grp(G.var("ছ")), G.num("0.1"), G.bin_("*", G.var("ছ"), G.num(1))]
    tails = [(G.num("0.2"), G.num("0.3")), (G.num(1), G.num(1)), (G.num("0.7"), G.num("0.1")), (G.num(3), G.num("0.3")), (G.num("1" + "0" * 16), G.num(1))]
    nr = 0
    for x in lefts:
        for (a, b_) in tails:
            for o1, o2 in (("+", "+"), ("+", "-"), ("-", "+"), ("-", "-"), ("*", "*"), ("*", "/"), ("/", "*"), ("/", "/")):
                for e in (G.bin_(o2, G.bin_(o1, x, a), b_), G.bin_("==", G.bin_(o2, G.bin_(o1, x, a), b_), G.bin_(o2, G.grp(G.bin_(o1, x, a)), b_))):
                    want = render_val(Eval().ev(e))
                    src = PRELUDE + G.render(G.toks_stmt(("print", e)), "minimal") + "\n"
                    out.append(C.Case("rounding-chain", ["RUN " + C.hx(src)], default_compare, oracle, info={"src": src, "want": want}))
                    nr += 1
    # long flat chains (scale): 32..80 operands at one nesting level are still left-associative — a parser that rebalances or
    # re-groups long chains (to save stack) changes the rounding
    nl = 0
    for n in ((33, 40, 64, 80) if tier != "thorough" else range(30, 140, 7)):
        for op, x in (("+", G.num("0.1")), ("+", G.var("ছ")), ("-", G.num("0.1")), ("*", G.num("1.1")), ("/", G.num("1.1"))):
            e = x
            for i in range(n - 1):
                e = G.bin_(op, e, G.num("0.1") if op in "+-" else G.num("1.1"))
            big = G.var("জ")
            for i in range(n - 1):
                big = G.bin_("+", big, G.num(1))
            for ee in (e, big) if op == "+" else (e,):
                want = render_val(Eval().ev(ee))
                src = PRELUDE + G.render(G.toks_stmt(("print", ee)), "minimal") + "\n"
                out.append(C.Case("long-chain", ["RUN " + C.hx(src)], default_compare, oracle, info={"src": src[-200:], "want": want, "operands": n}))
                nl += 1
    # container identity: `+` on two lists always yields a NEW list — also when one operand is empty — and `==` / `!=` on
    # lists compare identity, so a concatenation is never equal to one of its own operands (directly or through a pure function)
    lsrc = [G.var("ঘ"), G.var("চ"), G.lst(), G.lst(G.num(1)), G.grp(G.var("চ")), G.call("যোগ", G.var("চ"), G.var("চ")),
            G.call("যোগ", G.var("ঘ"), G.var("চ"))]
    ni = 0
    for a in lsrc:
        for b_ in lsrc:
            for side in (G.var("ঘ"), G.var("চ")):
                for cmp_ in ("==", "!="):
                    for e in (G.bin_(cmp_, G.grp(G.bin_("+", a, b_)), side), G.bin_(cmp_, side, G.grp(G.bin_("+", a, b_))),
                              G.bin_(cmp_, G.call("যোগ", a, b_), side)):
                        try:
                            want = render_val(Eval().ev(e))
                        except TypeErr:
                            want = "TYPEERROR"
                        src = PRELUDE + G.render(G.toks_stmt(("print", e)), "minimal") + "\n"
                        out.append(C.Case("container-identity", ["RUN " + C.hx(src)], default_compare, oracle, info={"src": src[-160:], "want": want}))
                        ni += 1
    stats["container_identity"] = ni
    # arguments are evaluated in the caller's scopes, all of them before any parameter is bound: caller variables named like the
    # callee's parameters, in swapped / shifted positions, nested calls of the same function inside its own arguments
    na = 0
    A, B, X_ = G.var("a"), G.var("b"), G.var("x")
    argsets = [(B, A), (G.num(1), A), (A, A), (B, B), (G.bin_("-", A, B), G.bin_("%", A, B)), (G.call("যোগ", B, A), A),
               (B, G.call("যোগ", B, A)), (G.call("দ্বিগুণ", B), G.call("দ্বিগুণ", A)), (G.bin_("*", B, G.num(2)), G.bin_("+", A, X_))]
    for (p, q) in argsets:
        for e in (G.call("যোগ", p, q), G.bin_("-", G.call("যোগ", p, q), G.call("যোগ", q, p)), G.bin_("==", G.call("যোগ", p, q), G.bin_("+", p, q)),
                  G.call("দ্বিগুণ", G.call("যোগ", p, q)), G.call("যোগ", G.call("দ্বিগুণ", X_), G.bin_("+", X_, q))):
            try:
                want = render_val(Eval().ev(e))
            except TypeErr:
                want = "TYPEERROR"
            src = PRELUDE + G.render(G.toks_stmt(("print", e)), "minimal") + "\n"
            out.append(C.Case("argument-name-collision", ["RUN " + C.hx(src)], default_compare, oracle, info={"src": src[-160:], "want": want}))
            na += 1
    stats["argument_name_collision"] = na
    # the complete operator x operand-type table (13 binary operators x 7 x 7 runtime types, 2 unary x 7): which cells
    # evaluate and which are type errors is a finite table — enumerated against the model, whose table is proved (C01.*_table)
    tvals = [G.num(3), G.b(True), G.s("ক"), G.var("ঘ"), G.var("নথি"), G.var("দ্বিগুণ"), G.var("শূ")]
    nt = 0
    for op in ops:
        for a in tvals:
            for b_ in tvals:
                e = G.bin_(op, a, b_)
                src = PRELUDE + G.render(G.toks_stmt(("print", G.bin_("==", G.grp(e), G.grp(e)))), "minimal") + "\n"
                out.append(C.Case("type-table", ["RUN " + C.hx(src)], default_compare, oracle, info={"src": src[-120:], "want": None}))
                nt += 1
    for op in ("-", "!"):
        for a in tvals:
            src = PRELUDE + G.render(G.toks_stmt(("print", G.bin_("==", G.un(op, a), G.un(op, a)))), "minimal") + "\n"
            out.append(C.Case("type-table", ["RUN " + C.hx(src)], default_compare, oracle, info={"src": src[-120:], "want": None}))
            nt += 1
    stats["type_table_cells"] = nt
    stats["long_chains"] = nl
    stats["rounding_chains"] = nr
    stats["outcomes"] = hist
    stats["operators_per_tree"] = ops_hist
    stats["op_pair_table"] = len(ops) * len(ops) * 6
    # one name in two roles (props/collisions.py): shadowed functions, parameters named like globals / built-ins / their own function,
    # bare conditions, indexed and plain writes, re-declarations — every use of a name resolves to its innermost binding
    from props import collisions
    nc_ = collisions.family()
    out += nc_
    stats["name_collision_programs"] = len(nc_)
    return out
