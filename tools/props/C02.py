"""C02 — an if / else-if / else chain runs exactly one branch, in any context."""
import itertools
import common as C
import gen as G
import proggen
from props.base import prog_case

RULE = ("(a) exhaustive: chains of length 1..3 (quick) / 1..4 (thorough), with and without else, every truth assignment, "
        "placed in 9 nesting templates (top level, block, loop body, function body, inside a taken / not-taken branch of an "
        "outer chain, after a history prefix of else-less ifs, early returns and breaks); (b) random structured programs. "
        "Output and end status are compared with the Lean model and with the structured big-step semantics of the tree. "
        "Non-trivial: the chain has an else or more than one condition.")
ASSUMPTIONS = ["generated programs terminate; loops are counter-guarded"]
default_compare = lambda m, i: C.compare_run(m, i)


def chain(truths, has_else, tag):
    branches = [(G.b(t), [("print", G.s(f"{tag}{i}"))]) for i, t in enumerate(truths)]
    return ("if", branches, [("print", G.s(f"{tag}e"))] if has_else else None)


HISTORY = [
    [],
    [("if", [(G.b(True), [("print", G.s("h1"))])], None)],
    [("if", [(G.b(True), [("if", [(G.b(True), [("print", G.s("h2"))])], None)])], None), ("if", [(G.b(False), [])], None)],
    [("func", "ইতি", [], [("if", [(G.b(True), [("decl", "i", G.num(0)), ("loop", [("if", [(G.b(True), [("return", G.num(1))])], None)])])], None)]),
     ("expr", G.call("ইতি"))],
    [("decl", "j", G.num(0)), ("loop", [("assign", "j", [], G.bin_("+", G.var("j"), G.num(1))),
                                         ("if", [(G.bin_(">", G.var("j"), G.num(1)), [("if", [(G.b(True), [("break",)])], None)])], None)])],
]


def templates(ch, k):
    """the chain `ch` in the k-th context; every context ends with a sentinel print"""
    after = ("print", G.s("পরে"))
    if k == 0:
        return [ch, after]
    if k == 1:
        return [("block", [ch, after])]
    if k == 2:
        return [("decl", "n", G.num(0)), ("loop", [("if", [(G.bin_(">=", G.var("n"), G.num(2)), [("break",)])], None),
                                                      ("assign", "n", [], G.bin_("+", G.var("n"), G.num(1))), ch, after])]
    if k == 3:
        return [("func", "কাজ", [], [ch, after]), ("expr", G.call("কাজ")), ("expr", G.call("কাজ"))]
    if k == 4:
        return [("if", [(G.b(True), [ch, after])], [("print", G.s("বাইরে-else"))]), after]
    if k == 5:
        return [("if", [(G.b(False), [("print", G.s("না"))]), (G.b(True), [ch])], [("print", G.s("বাইরে-else"))]), after]
    if k == 6:
        return [("if", [(G.b(False), [ch])], [ch, after])]
    if k == 7:
        return [("if", [(G.b(True), [("if", [(G.b(True), [ch])], None)])], [("print", G.s("x"))]), after]
    return [("func", "গ", ["p"], [("if", [(G.var("p"), [ch, ("return", G.num(1))])], [("return", G.num(2))])]),
            ("print", G.call("গ", G.b(True))), ("print", G.call("গ", G.b(False))), after]


def cases(rng, tier, stats):
    out = []
    maxlen = 4 if tier == "thorough" else 3
    n = 0
    for L in range(1, maxlen + 1):
        for truths in itertools.product([False, True], repeat=L):
            for has_else in (False, True):
                ch = chain(truths, has_else, "শ")
                for k in range(9):
                    for hi, h in enumerate(HISTORY if tier == "thorough" or k in (0, 2, 3) else HISTORY[:2]):
                        prog = list(h) + templates(ch, k)
                        out.append(prog_case("chain-exhaustive", prog, info={"truths": truths, "else": has_else, "template": k, "history": hi},
                                             nontrivial=has_else or L > 1))
                        n += 1
    stats["exhaustive_chain_cases"] = n
    stats["exhaustive"] = True
    stats["exhaustive_space"] = f"chain length <= {maxlen} x else/no else x all truth assignments x 9 contexts x histories"
    # non-boolean condition
    for c in [G.num(1), G.s("x"), G.lst(), G.call("_টাইপ", G.num(1))]:
        out.append(prog_case("non-boolean-condition", [("print", G.s("a")), ("if", [(G.b(False), []), (c, [("print", G.s("b"))])], None), ("print", G.s("c"))]))
    nr = 20000 if tier == "thorough" else 500
    agg = {}
    for i in range(nr):
        r = rng.fork(f"r{i}")
        pg = proggen.ProgGen(r, max_depth=4, containers=False)
        prog = pg.program(r.range(4, 10))
        for k_, v in pg.stats.items():
            agg[k_] = agg.get(k_, 0) + v
        out.append(prog_case("random-program", prog, rng=r, mode=r.choice(["lines", "wild"])))
    stats["random_programs"] = nr
    stats["statement_kinds"] = agg
    return out
