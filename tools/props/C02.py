"""C02 — an if / else-if / else chain runs exactly one branch, in any context."""
import itertools
import common as C
import gen as G
import proggen
from props.base import prog_case

RULE = ("(a) exhaustive: chains of length 1..3 (quick) / 1..4 (thorough), with and without else, every truth assignment, "
        "placed in 9 nesting templates (top level, block, loop body, function body, inside a taken / not-taken branch of an "
        "outer chain, after a history prefix of else-less ifs, early returns and breaks); (a2) break / continue / return taken from each branch kind of an inner chain in a loop "
        "(directly or in a called function) inside each branch kind of an outer chain that still has branches after it; "
        "(a3) chains whose conditions call a function that allocates enough to trigger a collection right after the condition, "
        "in five contexts; (a4) chains whose taken branch calls a function that stacks 70..300 more conditionals (or recurses 70..300 deep) "
        "before the chain's else is reached; (b) random structured programs. "
        "Output and end status are compared with the Lean model and with the structured big-step semantics of the tree. "
        "Non-trivial: the chain has an else or more than one condition."
        ' Close-values family: 11 pairs of neighbouring doubles (2^53 +- 1/2, 10^18 + 128, 0.1 + 0.2 vs 0.3, 1/3*3, 1 + ulp) in ==/</else and !=/else chains and list equality.'
        ' Shared name-collision family (props/collisions.py): 24 scenarios in which one name is bound more than once, x 2 layouts.')
ASSUMPTIONS = ["generated programs terminate; loops are counter-guarded"]
default_compare = lambda m, i: C.compare_run(m, i)


def chain(truths, has_else, tag):
    branches = [(G.b(t), [("print", G.s(f"{tag}{i}"))]) for i, t in enumerate(truths)]
    return ("if", branches, [("print", G.s(f"{tag}e"))] if has_else else None)


HISTORY = [
    [],
    [("if", [(G.b(True), [("print", G.s("h1"))])], None)],
    [("if", [(G.b(True), [("if", [(G.b(True), [("print", G.s("h2"))])], None)])], None), ("if", [(G.b(False), [])], None)],
    [("func", "ইতি", [], [("if", [(G.b(True), [("decl", "i", G.num(0)), ("loop", [("if", [(G.b(True), [("return", G.num(1))])], None)])])], None)]),
     ("expr", G.call("ইতি"))],
    [("decl", "j", G.num(0)), ("loop", [("assign", "j", [], G.bin_("+", G.var("j"), G.num(1))),
                                         ("if", [(G.bin_(">", G.var("j"), G.num(1)), [("if", [(G.b(True), [("break",)])], None)])], None)])],
]


def templates(ch, k):
    """the chain `ch` in the k-th context; every context ends with a sentinel print"""
    after = ("print", G.s("পরে"))
    if k == 0:
        return [ch, after]
    if k == 1:
        return [("block", [ch, after])]
    if k == 2:
        return [("decl", "n", G.num(0)), ("loop", [("if", [(G.bin_(">=", G.var("n"), G.num(2)), [("break",)])], None),
                                                      ("assign", "n", [], G.bin_("+", G.var("n"), G.num(1))), ch, after])]
    if k == 3:
        return [("func", "কাজ", [], [ch, after]), ("expr", G.call("কাজ")), ("expr", G.call("কাজ"))]
    if k == 4:
        return [("if", [(G.b(True), [ch, after])], [("print", G.s("বাইরে-else"))]), after]
    if k == 5:
        return [("if", [(G.b(False), [("print", G.s("না"))]), (G.b(True), [ch])], [("print", G.s("বাইরে-else"))]), after]
    if k == 6:
        return [("if", [(G.b(False), [ch])], [ch, after])]
    if k == 7:
        return [("if", [(G.b(True), [("if", [(G.b(True), [ch])], None)])], [("print", G.s("x"))]), after]
    return [("func", "গ", ["p"], [("if", [(G.var("p"), [ch, ("return", G.num(1))])], [("return", G.num(2))])]),
            ("print", G.call("গ", G.b(True))), ("print", G.call("গ", G.b(False))), after]


def cases(rng, tier, stats):
    out = []
    maxlen = 4 if tier == "thorough" else 3
    n = 0
    for L in range(1, maxlen + 1):
        for truths in itertools.product([False, True], repeat=L):
            for has_else in (False, True):
                ch = chain(truths, has_else, "শ")
                for k in range(9):
                    for hi, h in enumerate(HISTORY if tier == "thorough" or k in (0, 2, 3) else HISTORY[:2]):
                        prog = list(h) + templates(ch, k)
                        out.append(prog_case("chain-exhaustive", prog, info={"truths": truths, "else": has_else, "template": k, "history": hi},
                                             nontrivial=has_else or L > 1))
                        n += 1
    stats["exhaustive_chain_cases"] = n
    stats["exhaustive"] = True
    stats["exhaustive_space"] = f"chain length <= {maxlen} x else/no else x all truth assignments x 9 contexts x histories"
    # exits (break / continue / return) taken from each kind of branch of an inner chain that sits in a loop (directly or in
    # a called function) inside each kind of branch of an outer chain which still has branches after it
    n2 = 0
    for exit_kind in ("break", "continue", "return"):
        for inner_pos in range(3):            # exit sits in the if / else-if / else branch of the inner chain
            for outer_pos in range(3):        # the loop sits in the if / else-if / else branch of the outer chain
                for via_call in (False, True):
                    for hist in (0, 1):
                        ex = ("return", G.num(5)) if exit_kind == "return" else (exit_kind,)
                        if exit_kind == "return" and not via_call:
                            continue
                        inner_branches = [(G.bin_("==", G.var("গ"), G.num(9)), [("print", G.s("ভিতর-ক"))]), (G.bin_("==", G.var("গ"), G.num(8)), [("print", G.s("ভিতর-খ"))])]
                        inner_else = [("print", G.s("ভিতর-গ"))]
                        trig = G.bin_("==", G.var("গ"), G.num(2))
                        if inner_pos == 0:
                            inner_branches[0] = (trig, [("print", G.s("বের")), ex])
                        elif inner_pos == 1:
                            inner_branches[1] = (trig, [("print", G.s("বের")), ex])
                        else:
                            inner_branches = [(G.bin_("!=", G.var("গ"), G.num(2)), [("print", G.s("ভিতর-ক"))])]
                            inner_else = [("print", G.s("বের")), ex]
                        loop = [("decl", "গ", G.num(0)),
                                ("loop", [("assign", "গ", [], G.bin_("+", G.var("গ"), G.num(1))), ("if", [(G.bin_(">", G.var("গ"), G.num(3)), [("break",)])], None),
                                          ("if", inner_branches, inner_else), ("print", G.var("গ"))]),
                                ("print", G.s("লুপের পরে"))]
                        pre = []
                        if via_call:
                            pre = [("func", "চালাও", [], loop + [("return", G.num(1))])]
                            inside = [("print", G.call("চালাও"))]
                        else:
                            inside = loop
                        if outer_pos == 0:
                            outer = ("if", [(G.b(True), inside), (G.b(True), [("print", G.s("বাইরে-খ"))])], [("print", G.s("বাইরে-গ"))])
                        elif outer_pos == 1:
                            outer = ("if", [(G.b(False), [("print", G.s("বাইরে-ক"))]), (G.b(True), inside), (G.b(True), [("print", G.s("বাইরে-খ২"))])], [("print", G.s("বাইরে-গ"))])
                        else:
                            outer = ("if", [(G.b(False), [("print", G.s("বাইরে-ক"))])], inside)
                        prog = pre + list(HISTORY[hist]) + [outer, ("print", G.s("চেইনের পরে")), ("if", [(G.b(False), [])], [("print", G.s("পরের else"))])]
                        out.append(prog_case("exit-from-branch", prog, info={"exit": exit_kind, "inner": inner_pos, "outer": outer_pos, "call": via_call, "history": hist}))
                        n2 += 1
    stats["exit_from_branch_cases"] = n2
    # (a3) conditions that do real work: the condition calls a function that allocates enough containers to make the
    # interpreter collect garbage right after the condition is evaluated (between the `যদি` statement and its block /
    # its `অথবা`), in every context
    work = ("func", "যাচাই", ["মোট", "ফল"], [("decl", "সারি", G.lst()), ("decl", "গুনতি", G.num(0)),
                                               ("loop", [("if", [(G.bin_(">=", G.var("গুনতি"), G.var("মোট")), [("break",)])], None),
                                                         ("expr", G.call("_লিস্ট-পুশ", G.var("সারি"), G.lst(G.var("গুনতি"), G.num(1), G.num(2)))),
                                                         ("assign", "গুনতি", [], G.bin_("+", G.var("গুনতি"), G.num(1)))]),
                                               ("return", G.var("ফল"))])
    n3 = 0
    for L in (1, 2):
        for truths in itertools.product([False, True], repeat=L):
            for has_else in (False, True):
                for sizes in ((300,) * L, (10, 300)[:L], (300, 10)[:L]):
                    branches = [(G.call("যাচাই", G.num(sz), G.b(t)), [("print", G.s(f"ক{i}"))]) for i, (t, sz) in enumerate(zip(truths, sizes))]
                    ch = ("if", branches, [("print", G.s("কe"))] if has_else else None)
                    for k in (0, 1, 2, 3, 4):
                        prog = [work] + templates(ch, k) + [ch, ("print", G.s("শেষ"))]
                        out.append(prog_case("working-condition", prog, info={"truths": truths, "else": has_else, "sizes": sizes, "template": k}))
                        n3 += 1
    stats["working_condition_cases"] = n3
    # (a4) deep flag stacks (scale): while a taken branch of a chain that still has branches after it is running, a call
    # stacks many more conditionals (a loop of else-less taken ifs; a break out of an if block per iteration; deep recursion
    # from inside a taken branch) and returns: the chain's own flag is still the one its `অথবা` sees
    n4 = 0
    for depth in ((70, 300) if tier != "thorough" else (63, 64, 65, 70, 129, 300, 1000)):
        many_ifs = ("func", "অনেক", ["ন"], [("decl", "i", G.num(0)), ("decl", "জ", G.num(0)),
                                            ("loop", [("if", [(G.bin_(">=", G.var("i"), G.var("ন")), [("break",)])], None),
                                                      ("assign", "i", [], G.bin_("+", G.var("i"), G.num(1))),
                                                      ("if", [(G.b(True), [("assign", "জ", [], G.bin_("+", G.var("জ"), G.num(1)))])], None)]),
                                            ("return", G.var("জ"))])
        recur = ("func", "গভীর", ["ন"], [("if", [(G.bin_(">", G.var("ন"), G.num(0)), [("return", G.bin_("+", G.call("গভীর", G.bin_("-", G.var("ন"), G.num(1))), G.num(1)))])], None),
                                          ("return", G.num(0))])
        for fn, call in ((many_ifs, G.call("অনেক", G.num(depth))), (recur, G.call("গভীর", G.num(min(depth, 300))))):
            for shape in range(3):
                if shape == 0:
                    ch = ("if", [(G.b(True), [("print", call)])], [("print", G.s("else"))])
                elif shape == 1:
                    ch = ("if", [(G.b(False), [("print", G.s("না"))]), (G.b(True), [("print", call)]), (G.b(True), [("print", G.s("তৃতীয়"))])], [("print", G.s("else"))])
                else:
                    ch = ("if", [(G.bin_(">", call, G.num(0)), [("print", G.s("হ্যাঁ"))])], [("print", G.s("else"))])
                for k in (0, 2, 3):
                    prog = [fn] + templates(ch, k) + [("print", G.s("শেষ"))]
                    out.append(prog_case("deep-flag-stack", prog, info={"depth": depth, "shape": shape, "template": k}))
                    n4 += 1
    stats["deep_flag_stack_cases"] = n4
    # (a5) conditions that compare numbers which are close but different (neighbouring doubles at 2^53, 10^18, 0.1 + 0.2 against
    # 0.3, a value against itself plus one unit in the last place): `==` / `!=` are exact, so which branch runs is decided
    # by the exact values, in chains ordered ==, <, else and !=, else
    close = [("2^53", G.num(9007199254740992), G.num(9007199254740991)), ("2^53-2", G.num(9007199254740992), G.num(9007199254740990)),
             ("2^53+2", G.num(9007199254740992), G.num(9007199254740994)), ("10^18", G.num(10 ** 18), G.num(10 ** 18 + 128)),
             ("0.3", G.num("0.3"), G.bin_("+", G.num("0.1"), G.num("0.2"))), ("third", G.num(1), G.bin_("*", G.bin_("/", G.num(1), G.num(3)), G.num(3))),
             ("tenth-sum", G.num(1), G.bin_("+", G.bin_("+", G.bin_("+", G.num("0.1"), G.num("0.2")), G.num("0.3")), G.num("0.4"))),
             ("ulp", G.num("1.0000000000000002"), G.num(1)), ("tiny", G.num("0.000000000000000000001"), G.num("0.0000000000000000000010000000000000001")),
             ("same", G.num(9007199254740992), G.bin_("+", G.num(9007199254740991), G.num(1))), ("1e15+half", G.num("1000000000000000.5"), G.num("1000000000000000.4"))]
    n5 = 0
    for tag, lim, val in close:
        for swap in (False, True):
            l, r_ = (val, lim) if swap else (lim, val)
            for k in (0, 2, 3, 8):
                ch1 = ("if", [(G.bin_("==", l, r_), [("print", G.s("সমান"))]), (G.bin_("<", l, r_), [("print", G.s("ছোট"))])], [("print", G.s("বড়"))])
                ch2 = ("if", [(G.bin_("!=", l, r_), [("print", G.s("আলাদা"))])], [("print", G.s("একই"))])
                ch3 = ("if", [(G.bin_("==", G.lst(l), G.lst(r_)), [("print", G.s("তালিকা সমান"))])], [("print", G.s("তালিকা আলাদা"))])
                for ch in (ch1, ch2, ch3):
                    out.append(prog_case("close-values", templates(ch, k) + [("print", G.bin_("==", l, r_)), ("print", G.s("শেষ"))], info={"pair": tag, "swap": swap, "template": k}))
                    n5 += 1
    stats["close_value_cases"] = n5
    # non-boolean condition
    for c in [G.num(1), G.s("x"), G.lst(), G.call("_টাইপ", G.num(1))]:
        out.append(prog_case("non-boolean-condition", [("print", G.s("a")), ("if", [(G.b(False), []), (c, [("print", G.s("b"))])], None), ("print", G.s("c"))]))
    nr = 20000 if tier == "thorough" else 500
    agg = {}
    for i in range(nr):
        r = rng.fork(f"r{i}")
        pg = proggen.ProgGen(r, max_depth=4, containers=False)
        prog = pg.program(r.range(4, 10))
        for k_, v in pg.stats.items():
            agg[k_] = agg.get(k_, 0) + v
        out.append(prog_case("random-program", prog, rng=r, mode=r.choice(["lines", "wild"])))
    stats["random_programs"] = nr
    stats["statement_kinds"] = agg
    # one name in two roles (props/collisions.py): shadowed functions, parameters named like globals / built-ins / their own function,
    # bare conditions, indexed and plain writes, re-declarations — every use of a name resolves to its innermost binding
    from props import collisions
    nc_ = collisions.family()
    out += nc_
    stats["name_collision_programs"] = len(nc_)
    return out
