"""C03 — break and continue act on exactly the innermost loop and restore scopes."""
import common as C
import gen as G
import proggen
from props.base import prog_case

RULE = ("(a) systematic: a loop body built from a prefix, a break/continue at nesting depth 0..2 inside conditionals and "
        "blocks, followed textually by every combination of {nested loop, conditional continue, block, nested loop with "
        "its own break}; placed at top level, in a function body, inside an outer loop and after a finished loop; "
        "iteration counts 0..3; loop-local declarations shadowing outer names are printed after the loop; "
        "(b) random structured programs with loops enabled. Compared with the Lean model and the structured semantics. "
        "Non-trivial: something follows the break/continue textually in the body."
        ' Brace-less loops (`লুপ … আবার;`) over random programs, model-vs-implementation.'
        ' Shared name-collision family (props/collisions.py): 24 scenarios in which one name is bound more than once, x 2 layouts.')
ASSUMPTIONS = ["generated programs terminate; loops are counter-guarded"]
default_compare = lambda m, i: C.compare_run(m, i)


PRES = {0: [],
        1: [("if", [(G.b(True), [("print", G.s("আগে"))])], None)],                       # a closed conditional directly before
        2: [("block", [("decl", "ক", G.num(77)), ("print", G.var("ক"))])],                  # a closed bare block directly before
        3: [("if", [(G.b(False), [("print", G.s("না"))])], [("print", G.s("নয়তো"))])]}     # a closed if/else chain directly before


def wrap(st, depth, kind, pre=0):
    """nest a statement `depth` levels deep in conditionals / blocks; `pre` puts a closed construct directly before it in
    the innermost block (so the statement follows a `}` instead of a `{`)"""
    sts = list(PRES[pre]) + [st]
    for d in range(depth):
        sts = [("if", [(G.b(True), sts)], None)] if (kind >> d) & 1 == 0 else [("block", [("decl", "ক", G.num(90 + d))] + sts)]
    return sts


def followers(mask, tag):
    out = []
    if mask & 1:
        out += [("decl", "ভ", G.num(0)), ("loop", [("assign", "ভ", [], G.bin_("+", G.var("ভ"), G.num(1))),
                                                 ("if", [(G.bin_(">", G.var("ভ"), G.num(1)), [("break",)])], None), ("print", G.s(tag + "-ভিতর"))])]
    if mask & 2:
        out += [("if", [(G.bin_("==", G.var("গ"), G.num(2)), [("continue",)])], None)]
    if mask & 4:
        out += [("block", [("decl", "ক", G.num(55)), ("print", G.var("ক"))])]
    if mask & 8:
        out += [("print", G.s(tag + "-শেষ"))]
    return out


def loop_prog(action, depth, kind, mask, limit, ctx, pre=0):
    trigger = G.bin_("==", G.var("গ"), G.num(2)) if action != "none" else G.b(False)
    act = ("break",) if action == "break" else ("continue",)
    body = [("if", [(G.bin_(">", G.var("গ"), G.num(limit)), [("break",)])], None),
            ("assign", "গ", [], G.bin_("+", G.var("গ"), G.num(1))),
            ("decl", "ক", G.bin_("*", G.var("গ"), G.num(10))),
            ("print", G.var("ক")),
            ("if", [(trigger, wrap(act, depth, kind, pre))], None)] + followers(mask, "অ")
    core = [("decl", "ক", G.num(1)), ("decl", "গ", G.num(0)), ("loop", body), ("print", G.var("ক")), ("print", G.var("গ"))]
    if ctx == 0:
        return core
    if ctx == 1:
        return [("func", "চল", [], core + [("return", G.var("গ"))]), ("print", G.call("চল")), ("print", G.call("চল"))]
    if ctx == 2:
        return [("decl", "বা", G.num(0)), ("loop", [("assign", "বা", [], G.bin_("+", G.var("বা"), G.num(1))),
                                                   ("if", [(G.bin_(">", G.var("বা"), G.num(2)), [("break",)])], None)] + core + [("print", G.var("বা"))]),
                ("print", G.s("সব শেষ"))]
    return [("decl", "আ", G.num(0)), ("loop", [("assign", "আ", [], G.bin_("+", G.var("আ"), G.num(1))),
                                               ("if", [(G.bin_(">", G.var("আ"), G.num(1)), [("break",)])], None)])] + core


def cases(rng, tier, stats):
    out = []
    n = 0
    for action in ("break", "continue", "none"):
        for depth in (0, 1, 2):
            kinds = range(1 << depth) if tier == "thorough" else [0, (1 << depth) - 1] if depth else [0]
            for kind in sorted(set(kinds)):
                for mask in range(16):
                    for limit in ((0, 1, 3) if tier == "thorough" else (3,)) if action != "none" else (1,):
                        for ctx in range(4):
                            prog = loop_prog(action, depth, kind, mask, limit, ctx)
                            out.append(prog_case("loop-systematic", prog, nontrivial=mask != 0,
                                                 info={"action": action, "depth": depth, "kind": kind, "followers": mask, "limit": limit, "context": ctx}))
                            n += 1
    # the break / continue directly after a closed construct (`}` before it instead of `{`)
    np_ = 0
    for action in ("break", "continue"):
        for depth in (0, 1, 2):
            for kind in sorted({0, (1 << depth) - 1}):
                for pre in (1, 2, 3):
                    for mask in ((0, 1, 2, 15) if tier != "thorough" else range(16)):
                        for ctx in ((0, 2) if tier != "thorough" else range(4)):
                            prog = loop_prog(action, depth, kind, mask, 3, ctx, pre)
                            out.append(prog_case("loop-after-closed-construct", prog,
                                                 info={"action": action, "depth": depth, "kind": kind, "followers": mask, "context": ctx, "pre": pre}))
                            np_ += 1
    stats["after_closed_construct"] = np_
    # re-entrancy: a function whose loop body calls the function itself (directly, or through a second function) while the outer
    # activation is suspended inside that loop; afterwards the outer activation continues, breaks or closes its own loop — each
    # activation's loop is its own, whatever the inner ones did (left by break, by `ফেরত` from inside the loop, or normally)
    nrec = 0
    for inner_exit in ("break", "return", "normal"):
        for outer_next in ("continue", "break", "close"):
            for mutual in (False, True):
                for ctx in (0, 1):
                    callee = "মাঝ" if mutual else "হাঁট"
                    exit_st = {"break": [("if", [(G.bin_(">=", G.var("i"), G.num(2)), [("break",)])], None)],
                               "return": [("if", [(G.bin_(">=", G.var("i"), G.num(2)), [("return", G.var("d"))])], None)],
                               "normal": [("if", [(G.bin_(">", G.var("i"), G.num(2)), [("break",)])], None)]}[inner_exit]
                    after_call = {"continue": [("if", [(G.bin_("==", G.var("i"), G.num(1)), [("print", G.s("আবার-যাই")), ("continue",)])], None)],
                                  "break": [("if", [(G.bin_("==", G.var("i"), G.num(1)), [("decl", "ভ", G.num(5)), ("break",)])], None)],
                                  "close": []}[outer_next]
                    body = [("assign", "i", [], G.bin_("+", G.var("i"), G.num(1)))] + exit_st + [
                            ("print", G.bin_("+", G.bin_("*", G.var("d"), G.num(10)), G.var("i"))),
                            ("if", [(G.bin_("<", G.var("d"), G.num(2)), [("expr", G.call(callee, G.bin_("+", G.var("d"), G.num(1))))])], None)] + after_call + [
                            ("print", G.s("পাক-শেষ"))]
                    funcs = [("func", "হাঁট", ["d"], [("decl", "i", G.num(0)), ("loop", body), ("print", G.bin_("+", G.num(1000), G.var("d"))), ("return", G.var("d"))])]
                    if mutual:
                        funcs.append(("func", "মাঝ", ["e"], [("decl", "j", G.num(0)),
                                                              ("loop", [("assign", "j", [], G.bin_("+", G.var("j"), G.num(1))), ("if", [(G.bin_(">", G.var("j"), G.num(1)), [("break",)])], None),
                                                                        ("expr", G.call("হাঁট", G.var("e")))]), ("return", G.var("e"))]))
                    main = [("print", G.call("হাঁট", G.num(0))), ("print", G.s("শেষ"))]
                    if ctx == 1:
                        main = [("decl", "বা", G.num(0)), ("loop", [("assign", "বা", [], G.bin_("+", G.var("বা"), G.num(1))),
                                                                   ("if", [(G.bin_(">", G.var("বা"), G.num(2)), [("break",)])], None)] + main + [("print", G.var("বা"))]), ("print", G.s("সব শেষ"))]
                    out.append(prog_case("loop-re-entered", funcs + main, info={"inner_exit": inner_exit, "outer_next": outer_next, "mutual": mutual, "context": ctx}))
                    nrec += 1
    stats["loop_re_entered"] = nrec
    stats["systematic"] = n
    # return from inside a loop in the callee, then break/continue in the caller's loop
    prog = [("func", "ফ", [], [("decl", "i", G.num(0)), ("loop", [("if", [(G.b(True), [("return", G.num(7))])], None)])]),
            ("decl", "গ", G.num(0)),
            ("loop", [("assign", "গ", [], G.bin_("+", G.var("গ"), G.num(1))), ("if", [(G.bin_(">", G.var("গ"), G.num(3)), [("break",)])], None),
                      ("print", G.call("ফ")), ("if", [(G.bin_("==", G.var("গ"), G.num(2)), [("continue",)])], None), ("print", G.var("গ"))]),
            ("print", G.s("শেষ"))]
    out.append(prog_case("return-from-loop-then-continue", prog))
    nr = 20000 if tier == "thorough" else 500
    for i in range(nr):
        r = rng.fork(f"r{i}")
        pg = proggen.ProgGen(r, max_depth=4, containers=False)
        prog = pg.program(r.range(4, 9))
        out.append(prog_case("random-program", prog, rng=r, mode=r.choice(["lines", "wild"])))
    stats["random_programs"] = nr
    # the same kind of random programs written with brace-less loops (`লুপ … আবার;`: the parser accepts it, the body has no scope
    # of its own): break / continue / nesting / returns through such loops, compared model-vs-implementation (no tree oracle:
    # it is a different program from the braced one)
    from props.base import run_req, cmp_run
    nb = 0
    for i in range(3000 if tier == "thorough" else 200):
        r = rng.fork(f"b{i}")
        pg = proggen.ProgGen(r, max_depth=4, containers=False)
        prog = pg.program(r.range(4, 9))
        with G.styled(braceless_loop=True, comments=r.chance(0.3)):
            src = G.source(prog, "lines")
        if "লুপ" in src:
            out.append(C.Case("braceless-loops", [run_req(src, spec=1)], cmp_run(line=True), None, info={"src": src}, nontrivial=False))
            nb += 1
    stats["braceless_loop_programs"] = nb
    # one name in two roles (props/collisions.py): shadowed functions, parameters named like globals / built-ins / their own function,
    # bare conditions, indexed and plain writes, re-declarations — every use of a name resolves to its innermost binding
    from props import collisions
    nc_ = collisions.family()
    out += nc_
    stats["name_collision_programs"] = len(nc_)
    return out
