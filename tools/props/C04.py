"""C04 — variables are block scoped: declare, shadow, assign, expire."""
import common as C
import gen as G
import proggen
from props.base import prog_case

RULE = ("random interleavings of declare / re-declare / assign / read over a 4-name alphabet inside nested blocks, "
        "conditionals, loop bodies (fresh scope per iteration) and function bodies; every read is printed, every scope "
        "exit is followed by reads of all names; reads and assignments of names with no visible declaration are generated "
        "on purpose (10%) and must stop the program with a runtime error; `নাম x;` holds nil (checked through _টাইপ). "
        "Compared with the Lean model and the structured semantics. Non-trivial: at least one shadowing declaration."
        ' Shared name-collision family (props/collisions.py): 24 scenarios in which one name is bound more than once, x 2 layouts.')
ASSUMPTIONS = ["dynamic scoping (a callee sees its caller's variables) is the language's rule and part of both oracles"]
default_compare = lambda m, i: C.compare_run(m, i)
NAMES = ["ক", "খ", "গ", "ঘ"]


class SGen:
    def __init__(self, r):
        self.r = r
        self.shadow = 0
        self.cnt = 0

    def val(self):
        self.cnt += 1
        return G.num(self.cnt)

    def reads(self, declared):
        return [("print", G.call("_টাইপ", G.var(n))) if self.r.chance(0.15) else ("print", G.var(n)) for n in sorted(declared)]

    def body(self, declared_outer, depth, in_func=False):
        r = self.r
        local = set()
        out = []
        for _ in range(r.range(1, 5)):
            vis = declared_outer | local
            k = r.below(100)
            if k < 25:
                n = r.choice(NAMES)
                if n in declared_outer and n not in local:
                    self.shadow += 1
                local.add(n)
                out.append(("decl", n, self.val()) if r.chance(0.85) else ("decl", n, None))
                if out[-1][2] is None:
                    out.append(("print", G.call("_টাইপ", G.var(n))))
                    out.append(("assign", n, [], self.val()))
            elif k < 45 and vis:
                out.append(("assign", r.choice(sorted(vis)), [], self.val()))
            elif k < 60 and vis:
                out.append(("print", G.var(r.choice(sorted(vis)))))
            elif k < 64:
                missing = [n for n in NAMES if n not in vis]
                if missing and r.chance(0.5):
                    out.append(("print", G.var(r.choice(missing))) if r.chance(0.5) else ("assign", r.choice(missing), [], self.val()))
            elif k < 76 and depth < 4:
                out.append(("block", self.body(vis, depth + 1, in_func)))
                out += self.reads(vis)
            elif k < 86 and depth < 4:
                out.append(("if", [(G.b(r.chance(0.5)), self.body(vis, depth + 1, in_func))], self.body(vis, depth + 1, in_func) if r.chance(0.5) else None))
                out += self.reads(vis)
            elif k < 94 and depth < 3:
                c = "গণ" + G.bn_digits(str(self.cnt))
                self.cnt += 1
                out.append(("decl", c, G.num(0)))
                local.add(c)
                out.append(("loop", [("if", [(G.bin_(">=", G.var(c), G.num(2)), [("break",)])], None),
                                      ("assign", c, [], G.bin_("+", G.var(c), G.num(1)))] + self.body(vis | {c}, depth + 1, in_func)))
                out += self.reads(vis)
            else:
                out += self.reads(vis)
        return out


def cases(rng, tier, stats):
    out = []
    n = 20000 if tier == "thorough" else 700
    sh = 0
    for i in range(n):
        r = rng.fork(f"s{i}")
        g = SGen(r)
        top = set()
        prog = []
        if r.chance(0.4):
            fb = g.body({"প"}, 1, True)
            prog.append(("func", "কাজ", ["প"], fb + [("return", G.var("প"))]))
        for nme in NAMES[: r.range(0, 3)]:
            prog.append(("decl", nme, g.val()))
            top.add(nme)
        prog += g.body(top, 0)
        if prog and prog[0][0] == "func":
            prog.append(("print", G.call("কাজ", g.val())))
            prog += g.reads(top)
        # probes for names that expired with a loop body or block: inside fresh nested blocks (1..3 deep) an assignment must
        # reach the outer variable and a read of a never-visible name must be an error
        if r.chance(0.6):
            lp = "ঢ"   # declared only inside the loop body below
            prog.append(("decl", "গুনতি", G.num(0)))
            exit_stmt = r.choice([("break",), ("continue",)])
            prog.append(("loop", [("assign", "গুনতি", [], G.bin_("+", G.var("গুনতি"), G.num(1))),
                                  ("if", [(G.bin_(">", G.var("গুনতি"), G.num(2)), [("break",)])], None),
                                  ("decl", lp, g.val()), ("decl", "ক", g.val()),
                                  ("if", [(G.bin_("==", G.var("গুনতি"), G.num(r.range(1, 2))), [("block", [exit_stmt])])], None), ("print", G.var(lp))]))
            prog.append(("decl", "ক", g.val()))
            depth = r.range(1, 3)
            inner = [("assign", "ক", [], g.val()), ("print", G.var("ক"))]
            if r.chance(0.5):
                inner.append(("print", G.var(lp)))      # never visible here: runtime error expected
            for _ in range(depth):
                inner = [("block", inner)] if r.chance(0.5) else [("if", [(G.b(True), inner)], None)]
            prog += inner
            prog.append(("print", G.var("ক")))
        sh += g.shadow
        out.append(prog_case("scopes", prog, rng=r, mode="lines", nontrivial=g.shadow > 0, info={"shadowings": g.shadow}))
    # every iteration starts with a FRESH body scope, also when the previous one left through an early `আবার;` nested in
    # conditionals / blocks: a read or assignment placed before the body's own declaration reaches the outer variable, and a
    # name declared only in the body is not visible at the start of the next iteration
    nf = 0
    for probe in range(3):
        for nest in range(4):
            for when in (1, 2):
                for ctx in (0, 1):
                    cont = [("continue",)]
                    for d in range(nest):
                        cont = [("if", [(G.b(True), cont)], None)] if (nest + d) % 2 == 0 else [("block", [("decl", "ভ", G.num(d))] + cont)]
                    probe_st = {0: [("print", G.var("মান"))],
                                1: [("assign", "মান", [], G.bin_("+", G.var("মান"), G.s("!")))],
                                2: [("if", [(G.bin_(">", G.var("গ"), G.num(1)), [("print", G.var("শুধু"))])], None)]}[probe]
                    body = [("assign", "গ", [], G.bin_("+", G.var("গ"), G.num(1))),
                            ("if", [(G.bin_(">", G.var("গ"), G.num(3)), [("break",)])], None)] + probe_st + [
                            ("decl", "মান", G.s("ভিতরের")), ("decl", "শুধু", G.num(1)), ("print", G.var("মান")),
                            ("if", [(G.bin_("==", G.bin_("%", G.var("গ"), G.num(2)), G.num(when % 2)), cont)], None),
                            ("print", G.s("জোড়"))]
                    core = [("decl", "মান", G.s("বাইরের")), ("decl", "গ", G.num(0)), ("loop", body), ("print", G.var("মান")), ("print", G.var("গ"))]
                    prog = core if ctx == 0 else [("func", "চল", [], core + [("return", G.var("গ"))]), ("print", G.call("চল"))]
                    out.append(prog_case("fresh-body-scope", prog, info={"probe": probe, "nest": nest, "when": when, "context": ctx}))
                    nf += 1
    stats["fresh_body_scope"] = nf
    # a call's arguments are evaluated in the caller's scopes, before any parameter of the callee exists: caller variables named
    # like the callee's parameters (read, and assigned through a helper called in a later argument), at top level, inside
    # blocks that shadow them, and in accumulator recursion
    nc = 0
    for depth in (0, 1, 2):
        for variant in range(4):
            prog = [("func", "যোগ", ["ক", "খ"], [("return", G.bin_("+", G.var("ক"), G.var("খ")))]),
                    ("func", "জোড়া", ["গ", "ঘ"], [("return", G.lst(G.var("গ"), G.var("ঘ")))]),
                    ("decl", "গ", G.num(0)),
                    ("func", "গুনতি", [], [("assign", "গ", [], G.bin_("+", G.var("গ"), G.num(1))), ("return", G.var("গ"))]),
                    ("func", "গুণ", ["ন", "ফল"], [("if", [(G.bin_("<=", G.var("ন"), G.num(1)), [("return", G.var("ফল"))])], None),
                                                  ("return", G.call("গুণ", G.bin_("-", G.var("ন"), G.num(1)), G.bin_("*", G.var("ফল"), G.var("ন"))))]),
                    ("decl", "ক", G.num(10)), ("decl", "খ", G.num(3))]
            body = [("print", G.call("যোগ", G.num(1), G.var("ক"))), ("print", G.call("যোগ", G.var("খ"), G.var("ক"))),
                    ("print", G.call("জোড়া", G.num(100), G.call("গুনতি"))), ("print", G.var("গ")),
                    ("print", G.call("গুণ", G.num(5), G.num(1)))]
            if variant & 1:
                body = [("decl", "ক", G.num(20 + depth))] + body + [("assign", "ক", [], G.call("যোগ", G.num(2), G.bin_("+", G.var("ক"), G.num(1)))), ("print", G.var("ক"))]
            if variant & 2:
                body.append(("print", G.call("যোগ", G.call("যোগ", G.var("খ"), G.var("ক")), G.call("যোগ", G.var("ক"), G.var("খ")))))
            for d in range(depth):
                body = [("block", body)] if d % 2 == 0 else [("if", [(G.b(True), body)], None)]
            prog += body + [("print", G.var("ক")), ("print", G.var("গ"))]
            out.append(prog_case("argument-scope", prog, info={"depth": depth, "variant": variant}))
            nc += 1
    stats["argument_scope"] = nc
    stats["programs"] = n
    stats["shadowing_declarations"] = sh
    # one name in two roles (props/collisions.py): shadowed functions, parameters named like globals / built-ins / their own function,
    # bare conditions, indexed and plain writes, re-declarations — every use of a name resolves to its innermost binding
    from props import collisions
    nc_ = collisions.family()
    out += nc_
    stats["name_collision_programs"] = len(nc_)
    return out
