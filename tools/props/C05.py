"""C05 — calls bind by position, return the executed return value, and unwind cleanly."""
import common as C
import gen as G
import proggen
from props.base import prog_case

RULE = ("generated function sets (arity 0..3, 1..3 functions, direct and mutual recursion to depth 6) whose return "
        "statements sit at nesting depth 0..3 inside conditionals, loops and blocks; calls placed as statement, operand, "
        "argument, condition, return operand, list element and inside caller loops; argument counts below, at and above "
        "the arity; caller locals, the caller's loop counter and a pending else-chain are printed after each call. "
        "Compared with the Lean model and the structured semantics. Non-trivial: a return sits inside a loop or conditional."
        ' Closing-return family: the documented style `ফাং f(a) { body } ফেরত e;` (12 body shapes: empty, locals not visible, early return, loop, recursion, failing operand) x 7 call sites x 2/1/0 arguments.'
        ' Shared name-collision family (props/collisions.py): 24 scenarios in which one name is bound more than once, x 2 layouts.')
ASSUMPTIONS = ["recursion depth stays far below the native stack limit"]
default_compare = lambda m, i: C.compare_run(m, i)


def ret_at(depth, kind, val):
    st = ("return", val)
    for d in range(depth):
        m = (kind >> (2 * d)) & 3
        if m == 0:
            st = ("if", [(G.b(True), [st])], [("print", G.s("না"))])
        elif m == 1:
            st = ("loop", [("decl", "ল", G.num(d)), st])
        elif m == 2:
            st = ("block", [("decl", "ব", G.num(d)), st])
        else:
            st = ("if", [(G.b(False), [("print", G.s("x"))]), (G.b(True), [st])], None)
    return st


def cases(rng, tier, stats):
    out = []
    n = 0
    # systematic: return position x call site
    for depth in (0, 1, 2, 3):
        kinds = range(4 ** depth) if tier == "thorough" else sorted({0, 1, (4 ** depth - 1) // 3 * 1, 4 ** depth - 1, 5 % max(1, 4 ** depth)})
        for kind in kinds:
            if kind >= 4 ** depth:
                continue
            for site in range(7):
                f = ("func", "ফ", ["a", "b"], [("decl", "স্থানীয়", G.num(5)), ("assign", "a", [], G.bin_("+", G.var("a"), G.num(100))),
                                                ret_at(depth, kind, G.bin_("+", G.var("a"), G.var("স্থানীয়"))), ("print", G.s("পৌঁছানো উচিত না"))])
                callx = G.call("ফ", G.num(1), G.num(2))
                pre = [f, ("decl", "a", G.num(9)), ("decl", "গ", G.num(0))]
                if site == 0:
                    mid = [("expr", callx)]
                elif site == 1:
                    mid = [("print", G.bin_("+", callx, G.bin_("*", callx, G.num(2))))]
                elif site == 2:
                    mid = [("print", G.call("ফ", G.call("ফ", G.num(1)), G.num(3), G.num(4)))]
                elif site == 3:
                    mid = [("if", [(G.bin_(">", callx, G.num(1000)), [("print", G.s("ক"))]), (G.bin_(">", callx, G.num(1)), [("print", G.s("খ"))])], [("print", G.s("গ"))])]
                elif site == 4:
                    mid = [("func", "বাইরে", [], [("return", G.bin_("+", callx, G.num(1)))]), ("print", G.call("বাইরে"))]
                elif site == 5:
                    mid = [("print", G.lst(callx, G.call("ফ")))]
                else:
                    mid = [("loop", [("assign", "গ", [], G.bin_("+", G.var("গ"), G.num(1))), ("if", [(G.bin_(">", G.var("গ"), G.num(3)), [("break",)])], None),
                                     ("print", callx), ("if", [(G.bin_("==", G.var("গ"), G.num(2)), [("continue",)])], None), ("print", G.var("গ"))])]
                post = [("print", G.var("a")), ("print", G.var("গ")), ("if", [(G.b(False), [])], [("print", G.s("else ঠিক"))])]
                out.append(prog_case("return-x-callsite", pre + mid + post, nontrivial=depth > 0, info={"depth": depth, "kind": kind, "site": site}))
                n += 1
    stats["systematic"] = n
    # arity mismatches, bare return, closing return, nil results
    f0 = ("func", "শ", ["x", "y", "z"], [("print", G.call("_টাইপ", G.var("x"))), ("print", G.call("_টাইপ", G.var("y"))), ("print", G.call("_টাইপ", G.var("z"))),
                                          ("if", [(G.bin_("==", G.call("_টাইপ", G.var("x")), G.s("_সংখ্যা")), [("return", None)])], None)])
    for k in range(5):
        args = [G.num(i) for i in range(k)]
        out.append(prog_case("arity", [f0, ("print", G.call("_টাইপ", G.call("শ", *args))), ("print", G.s("ok"))]))
    out.append(prog_case("surplus-not-evaluated", [("func", "এ", ["x"], [("return", G.var("x"))]),
                                                   ("func", "বুম", [], [("print", G.s("evaluated")), ("return", G.num(1))]),
                                                   ("print", G.call("এ", G.num(1), G.call("বুম")))]))
    # the documented style `ফাং f(a) { body } ফেরত e;`: the operand of the return written after the block is evaluated after
    # the body block has ended (its locals are gone, parameters and globals are visible), only when the body did not return
    # itself; bodies that are empty, hold only a comment-free declaration, return early, loop, or recurse
    note = ("func", "টোকা", ["ক"], [("print", G.bin_("+", G.s("টোকা "), G.call("_স্ট্রিং", G.var("ক"))))], G.var("ক"))
    shapes = {
        "empty-body": ("func", "ফ", ["a", "b"], [], G.bin_("+", G.var("a"), G.bin_("*", G.var("b"), G.num(10)))),
        "empty-body-no-params": ("func", "ফ", [], [], G.bin_("+", G.var("বিশ্ব"), G.num(1))),
        "empty-body-nil-param": ("func", "ফ", ["a", "b"], [], G.call("_টাইপ", G.var("b"))),
        "local-not-visible": ("func", "ফ", ["a", "b"], [("decl", "ভিতরে", G.num(5))], G.bin_("+", G.var("a"), G.var("ভিতরে"))),
        "local-shadows-global": ("func", "ফ", ["a", "b"], [("decl", "বিশ্ব", G.num(5)), ("print", G.var("বিশ্ব"))], G.bin_("+", G.var("a"), G.var("বিশ্ব"))),
        "param-rebound-in-body": ("func", "ফ", ["a", "b"], [("assign", "a", [], G.bin_("+", G.var("a"), G.num(100)))], G.var("a")),
        "early-return": ("func", "ফ", ["a", "b"], [("if", [(G.bin_(">", G.var("a"), G.num(1)), [("return", G.s("আগে ফেরত"))])], None)], G.call("টোকা", G.s("শেষ ফেরত"))),
        "early-return-in-loop": ("func", "ফ", ["a", "b"], [("decl", "i", G.num(0)), ("loop", [("assign", "i", [], G.bin_("+", G.var("i"), G.num(1))),
                                                                                         ("if", [(G.bin_(">", G.var("i"), G.var("a")), [("return", G.var("i"))])], None),
                                                                                         ("if", [(G.bin_(">", G.var("i"), G.num(2)), [("break",)])], None)])], G.call("টোকা", G.s("লুপের পরে"))),
        "recursive": ("func", "ফ", ["a", "b"], [("if", [(G.bin_("<=", G.var("a"), G.num(0)), [("return", G.num(0))])], None)],
                      G.bin_("+", G.var("a"), G.call("ফ", G.bin_("-", G.var("a"), G.num(1))))),
        "closing-calls-printer": ("func", "ফ", ["a", "b"], [("print", G.s("দেহ"))], G.bin_("+", G.call("টোকা", G.var("a")), G.call("টোকা", G.var("b")))),
        "closing-fails": ("func", "ফ", ["a", "b"], [("print", G.s("দেহ"))], G.bin_("+", G.var("a"), G.s("x"))),
        "closing-list": ("func", "ফ", ["a", "b"], [], G.lst(G.var("a"), G.var("b"), G.lst())),
    }
    ncl = 0
    for sname, f in shapes.items():
        for site in range(7):
            for args in ((G.num(1), G.num(2)), (G.num(3),), ()):
                callx = G.call("ফ", *args)
                pre = [("decl", "বিশ্ব", G.num(40)), note, f, ("decl", "a", G.num(9)), ("decl", "গ", G.num(0))]
                if site == 0:
                    mid = [("expr", callx), ("print", G.s("বিবৃতি"))]
                elif site == 1:
                    mid = [("print", G.lst(callx, callx))]
                elif site == 2:
                    mid = [("decl", "ফল", callx), ("print", G.call("_টাইপ", G.var("ফল")))]
                elif site == 3:
                    mid = [("if", [(G.bin_("==", G.call("_টাইপ", callx), G.s("_সংখ্যা")), [("print", G.s("সংখ্যা"))])], [("print", G.s("অন্য"))])]
                elif site == 4:
                    mid = [("func", "বাইরে", [], [], callx), ("print", G.call("_টাইপ", G.call("বাইরে")))]
                elif site == 5:
                    mid = [("block", [("decl", "a", G.num(77)), ("print", G.call("_টাইপ", callx)), ("print", G.var("a"))])]
                else:
                    mid = [("loop", [("assign", "গ", [], G.bin_("+", G.var("গ"), G.num(1))), ("if", [(G.bin_(">", G.var("গ"), G.num(2)), [("break",)])], None),
                                     ("print", G.call("_টাইপ", callx))])]
                post = [("print", G.var("a")), ("print", G.var("বিশ্ব")), ("print", G.var("গ")), ("if", [(G.b(False), [])], [("print", G.s("else ঠিক"))])]
                out.append(prog_case("closing-return", pre + mid + post, info={"shape": sname, "site": site, "args": len(args)}))
                ncl += 1
    stats["closing_return"] = ncl
    # recursion and mutual recursion
    for depth in (0, 1, 3, 6):
        fact = ("func", "গুণ", ["n"], [("if", [(G.bin_("<=", G.var("n"), G.num(1)), [("return", G.num(1))])], None),
                                        ("return", G.bin_("*", G.var("n"), G.call("গুণ", G.bin_("-", G.var("n"), G.num(1)))))])
        ev = ("func", "জোড়", ["n"], [("if", [(G.bin_("==", G.var("n"), G.num(0)), [("return", G.b(True))])], None), ("return", G.call("বিজোড়", G.bin_("-", G.var("n"), G.num(1))))])
        od = ("func", "বিজোড়", ["n"], [("if", [(G.bin_("==", G.var("n"), G.num(0)), [("return", G.b(False))])], None), ("return", G.call("জোড়", G.bin_("-", G.var("n"), G.num(1))))])
        out.append(prog_case("recursion", [fact, ev, od, ("decl", "n", G.num(77)), ("print", G.call("গুণ", G.num(depth))), ("print", G.call("জোড়", G.num(depth))), ("print", G.var("n"))]))
    nr = 15000 if tier == "thorough" else 500
    for i in range(nr):
        r = rng.fork(f"r{i}")
        pg = proggen.ProgGen(r, max_depth=3, containers=False)
        prog = pg.program(r.range(4, 9), n_funcs=r.range(1, 3))
        out.append(prog_case("random-program", prog, rng=r, mode=r.choice(["lines", "wild"])))
    stats["random_programs"] = nr
    # one name in two roles (props/collisions.py): shadowed functions, parameters named like globals / built-ins / their own function,
    # bare conditions, indexed and plain writes, re-declarations — every use of a name resolves to its innermost binding
    from props import collisions
    nc_ = collisions.family()
    out += nc_
    stats["name_collision_programs"] = len(nc_)
    return out
