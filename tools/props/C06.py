"""C06 — lists and records are shared by reference; indexed write then read agree."""
import common as C
import gen as G
from props.base import prog_case

RULE = ("random container shapes (lists of lists, records of records, mixed, depth <= 4), random alias graphs built by "
        "assignment, argument passing, returning and storing into other containers, then random sequences of indexed "
        "writes through paths of length 1..4 (list positions and record keys mixed), pushes, pops and concatenations; "
        "after every step every alias is printed. Scalars are copied (checked by mutating the copy). Compared with the "
        "Lean model and the structured semantics (records up to entry order). Non-trivial: at least two aliases of one "
        "container and one write through a path of length >= 2."
        ' Key-spelling family: look-alike record keys (precomposed vs letter + nukta, with / without zero-width joiner, Bangla vs ASCII digit, trailing blank, letter case) are different keys on every write / read path.'
        ' Shared name-collision family (props/collisions.py): 24 scenarios in which one name is bound more than once, x 2 layouts.')
ASSUMPTIONS = ["record entry order is unspecified; outputs are matched up to permutation of entries"]
default_compare = lambda m, i: C.compare_run(m, i)
KEYS = ["k", "চ", "z"]


class Shape:
    """a Python mirror of the container graph, used only to generate valid paths"""
    def __init__(self, kind, items):
        self.kind, self.items = kind, items


def gen_shape(r, depth):
    if depth <= 0 or r.chance(0.35):
        return None
    if r.chance(0.55):
        return Shape("list", [gen_shape(r, depth - 1) for _ in range(r.range(1, 3))])
    ks = r.shuffle(KEYS)[: r.range(1, 3)]
    return Shape("rec", {k: gen_shape(r, depth - 1) for k in ks})


def lit_of(r, sh, counter):
    if sh is None:
        counter[0] += 1
        return G.num(counter[0]) if r.chance(0.8) else G.s("s" + str(counter[0]))
    if sh.kind == "list":
        return G.lst(*[lit_of(r, x, counter) for x in sh.items])
    return G.rec(*[(G.s(k), lit_of(r, v, counter)) for k, v in sh.items.items()])


def paths(sh, prefix=()):
    """all index paths to elements"""
    out = []
    if sh is None:
        return out
    if sh.kind == "list":
        for i, x in enumerate(sh.items):
            out.append(prefix + (("i", i),))
            out += paths(x, prefix + (("i", i),))
    else:
        for k, x in sh.items.items():
            out.append(prefix + (("k", k),))
            out += paths(x, prefix + (("k", k),))
    return out


def idx_exprs(path):
    return [G.num(p[1]) if p[0] == "i" else G.s(p[1]) for p in path]


def read_expr(name, path):
    e = G.var(name)
    for ix in idx_exprs(path):
        e = G.idx(e, ix)
    return e


def self_concat_family(rng):
    """`x = x + e` and its variants must build a NEW list whatever else refers to the old one (shared with C16)"""
    out = []
    # self-concatenation family: `x = x + e` (and its variants) must build a NEW list — whoever else refers to the old
    # one (a container slot, a second variable, the caller's variable, a record field) must not see the new elements,
    # and later writes through either reference must not show through the other
    fam = 0
    holders = ["slot", "var", "param", "field", "none"]
    rhs_kinds = ["lit", "var", "call", "empty"]
    forms = ["x+e", "e+x", "(x+e)", "x+e+e"]
    for hi, holder in enumerate(holders):
        for ri, rk in enumerate(rhs_kinds):
            for fi, form in enumerate(forms):
              for base_len in (2, 20):      # scale: a shortcut that only applies to long lists must not alias either
                if base_len == 20 and (ri + fi) % 2 == 1:
                    continue
                r = rng.fork(f"sc{hi}-{ri}-{fi}-{base_len}")
                prog = [("func", "দুই", [], [("return", G.lst(G.num(7), G.num(8)))]),
                        ("decl", "ক", G.lst(*[G.num(i + 1) for i in range(base_len)]))]
                other = None
                if holder == "slot":
                    prog.append(("decl", "ম", G.lst(G.var("ক"), G.num(0)))); other = G.idx(G.var("ম"), G.num(0))
                elif holder == "var":
                    prog.append(("decl", "খ", G.var("ক"))); other = G.var("খ")
                elif holder == "field":
                    prog.append(("decl", "র", G.rec((G.s("ভ"), G.var("ক"))))); other = G.idx(G.var("র"), G.s("ভ"))
                prog.append(("decl", "অন্য", G.lst(G.num(5))))
                e = {"lit": G.lst(G.num(3)), "var": G.var("অন্য"), "call": G.call("দুই"), "empty": G.lst()}[rk]
                def rhs(x):
                    return {"x+e": G.bin_("+", x, e), "e+x": G.bin_("+", e, x), "(x+e)": G.grp(G.bin_("+", x, e)),
                            "x+e+e": G.bin_("+", G.bin_("+", x, e), e)}[form]
                if holder == "param":
                    prog.insert(1, ("func", "বাড়াও", ["ত"], [("assign", "ত", [], rhs(G.var("ত"))),
                                                            ("expr", G.call("_লিস্ট-পুশ", G.var("ত"), G.num(99))),
                                                            ("return", G.var("ত"))]))
                    prog.append(("decl", "ফল", G.call("বাড়াও", G.var("ক"))))
                    prog.append(("print", G.var("ফল")))
                    prog.append(("print", G.var("ক")))
                    prog.append(("assign", "ফল", [G.num(0)], G.s("ফ")))
                    prog.append(("print", G.var("ক")))
                else:
                    prog.append(("assign", "ক", [], rhs(G.var("ক"))))
                    prog.append(("print", G.var("ক")))
                    if other is not None:
                        prog.append(("print", other))
                    prog.append(("assign", "ক", [G.num(0)], G.s("ন")))
                    prog.append(("expr", G.call("_লিস্ট-পুশ", G.var("ক"), G.num(42))))
                    prog.append(("print", G.var("ক")))
                    if other is not None:
                        prog.append(("print", other))
                        if holder == "slot":
                            prog.append(("assign", "ম", [G.num(0), G.num(1)], G.s("ভ")))
                        elif holder == "var":
                            prog.append(("assign", "খ", [G.num(1)], G.s("ভ")))
                        else:
                            prog.append(("assign", "র", [G.s("ভ"), G.num(1)], G.s("ভ")))
                        prog.append(("print", G.var("ক")))
                        prog.append(("print", other))
                    prog.append(("print", G.var("অন্য")))
                # the same statement repeated in a loop (the idiom an in-place shortcut would target)
                prog.append(("decl", "জ", G.lst()))
                prog.append(("decl", "ধ", G.lst(G.var("জ"))))
                prog.append(("decl", "i", G.num(0)))
                prog.append(("loop", [("if", [(G.bin_(">=", G.var("i"), G.num(3)), [("break",)])], None),
                                      ("assign", "জ", [], G.bin_("+", G.var("জ"), G.lst(G.var("i")))),
                                      ("assign", "i", [], G.bin_("+", G.var("i"), G.num(1)))]))
                prog.append(("print", G.var("জ")))
                prog.append(("print", G.var("ধ")))
                out.append(prog_case("self-concat", prog, rng=r, info={"holder": holder, "rhs": rk, "form": form}))
                fam += 1

    return out


def operand_provenance_family(rng):
    """`a + b` builds a new list and leaves both operands alone *whatever expression produced them*: a variable, a
    grouped variable, an element of a container, a record field, the result of a user function that hands back one of
    its arguments / a global / an element (identity, builder, getter style).  After the concatenation several fresh
    containers are allocated and changed; the operands must still be what they were (shared with C16)"""
    out = []
    funcs = [("func", "একই", ["ত"], [("return", G.var("ত"))]),
             ("func", "যোগ", ["ত", "ম"], [("expr", G.call("_লিস্ট-পুশ", G.var("ত"), G.var("ম"))), ("return", G.var("ত"))]),
             ("func", "গ্লোবাল", [], [("return", G.var("ক"))]),
             ("func", "প্রথম", ["ধ"], [("return", G.idx(G.var("ধ"), G.num(0)))])]
    sources = {"var": G.var("ক"), "group": G.grp(G.var("ক")), "slot": G.idx(G.var("ধারক"), G.num(0)), "field": G.idx(G.var("খাতা"), G.s("ভ")),
               "identity": G.call("একই", G.var("ক")), "builder": G.call("যোগ", G.var("ক"), G.num(4)), "getter": G.call("গ্লোবাল"),
               "element-getter": G.call("প্রথম", G.var("ধারক")), "nested-call": G.call("একই", G.call("একই", G.var("ক")))}
    # operands that are reachable ONLY through another container (no variable holds them)
    sources.update({"nested-only-slot": G.idx(G.var("টেবিল"), G.num(0)), "nested-only-field": G.idx(G.var("নথিপত্র"), G.s("সারি")),
                    "nested-only-getter": G.call("প্রথম", G.var("টেবিল")), "nested-only-deep": G.idx(G.idx(G.var("গভীর"), G.num(0)), G.num(0))})
    others = {"lit": G.lst(G.num(5), G.num(6)), "empty": G.lst(), "same": None, "call-fresh": G.call("_স্ট্রিং-স্প্লিট", G.s("p,q"), G.s(","))}
    n = 0
    for sk, src in sources.items():
        for ok, oth in others.items():
            for side in ("left", "right"):
                r = rng.fork(f"op-{sk}-{ok}-{side}")
                o = src if oth is None else oth
                e = G.bin_("+", src, o) if side == "left" else G.bin_("+", o, src)
                prog = list(funcs) + [("decl", "টেবিল", G.lst(G.lst(G.num(1), G.num(2)), G.lst(G.num(3), G.num(4)))),
                                      ("decl", "নথিপত্র", G.rec((G.s("সারি"), G.lst(G.num(10), G.num(20))))),
                                      ("decl", "গভীর", G.lst(G.lst(G.lst(G.num(7), G.num(8))))),
                                      ("decl", "ক", G.lst(G.num(1), G.num(2), G.num(3))), ("decl", "ধারক", G.lst(G.var("ক"), G.num(0))),
                                      ("decl", "খাতা", G.rec((G.s("ভ"), G.var("ক")))),
                                      ("decl", "ফল", e), ("print", G.var("ক")), ("print", G.var("ফল")),
                                      # fresh containers by every allocation route
                                      ("decl", "গ", G.lst(G.s("x"), G.s("y"))), ("decl", "ঘ", G.lst(G.s("p"))),
                                      ("decl", "ঙ", G.bin_("+", G.lst(G.num(8)), G.lst(G.num(9)))),
                                      ("decl", "চ", G.call("_স্ট্রিং-স্প্লিট", G.s("a-b-c"), G.s("-"))),
                                      ("decl", "ছ", G.rec((G.s("k"), G.lst(G.num(0))))),
                                      ("print", G.var("ক")), ("print", G.call("_লিস্ট-লেন", G.var("ক"))), ("print", G.var("ফল")),
                                      ("expr", G.call("_লিস্ট-পুশ", G.var("গ"), G.s("z"))), ("expr", G.call("_লিস্ট-পুশ", G.var("ঘ"), G.s("q"))),
                                      ("assign", "ঙ", [G.num(0)], G.s("ঙ")), ("expr", G.call("_লিস্ট-পপ", G.var("চ"), G.num(0))),
                                      ("print", G.var("ক")), ("print", G.var("ফল")), ("print", G.var("ধারক")), ("print", G.idx(G.var("খাতা"), G.s("ভ"))),
                                      ("expr", G.call("_লিস্ট-পপ", G.var("ক"), G.num(0))), ("assign", "ক", [G.num(0)], G.num(9)),
                                      ("expr", G.call("_লিস্ট-পুশ", G.var("ক"), G.num(0), G.num(7))),
                                      ("print", G.var("ক")), ("print", G.var("ফল")), ("print", G.var("গ")), ("print", G.var("ঘ")), ("print", G.var("ঙ")),
                                      ("print", G.var("চ")), ("print", G.var("ছ")),
                                      # the same expression once more (an in-place shortcut accumulates), then the containers
                                      ("decl", "ফল২", e), ("print", G.var("ফল২")), ("print", G.var("টেবিল")), ("print", G.var("নথিপত্র")), ("print", G.var("গভীর")),
                                      ("print", G.call("_লিস্ট-লেন", G.idx(G.var("টেবিল"), G.num(0))))]
                out.append(prog_case("operand-provenance", prog, rng=r, info={"source": sk, "other": ok, "side": side}))
                n += 1
    return out


def rhs_side_effect_family(rng):
    """`x[i1]..[in] = e` where evaluating `e` changes what the left-hand side denotes: it re-binds the root variable,
    replaces a container on the path, changes a variable used in an index, or grows / shrinks the target.  The value is
    computed first, then the path is resolved (in the state the right-hand side left behind): afterwards a read of the
    same path yields the assigned value and a detached container keeps what it had"""
    out = []
    V = G.var
    scen = []
    # 1. root re-bound by the right-hand side
    scen.append(("rebind-root", [("decl", "টেবিল", G.lst(G.num(0))),
                                  ("func", "পরের", [], [("assign", "টেবিল", [], G.bin_("+", V("টেবিল"), G.lst(G.num(0)))),
                                                        ("return", G.bin_("*", G.call("_লিস্ট-লেন", V("টেবিল")), G.num(10)))]),
                                  ("decl", "আগের", V("টেবিল")),
                                  ("assign", "টেবিল", [G.num(0)], G.call("পরের")), ("print", G.idx(V("টেবিল"), G.num(0))), ("print", V("টেবিল")), ("print", V("আগের"))]))
    # 2. intermediate list replaced, old one still aliased
    scen.append(("replace-inner-list", [("decl", "গ্রিড", G.lst(G.lst(G.num(1), G.num(2)), G.lst(G.num(3), G.num(4)))), ("decl", "পুরনো", G.idx(V("গ্রিড"), G.num(0))),
                                         ("func", "রিসেট", [], [("assign", "গ্রিড", [G.num(0)], G.lst(G.num(0), G.num(0))), ("return", G.num(7))]),
                                         ("assign", "গ্রিড", [G.num(0), G.num(1)], G.call("রিসেট")),
                                         ("print", G.idx(G.idx(V("গ্রিড"), G.num(0)), G.num(1))), ("print", V("গ্রিড")), ("print", V("পুরনো"))]))
    # 3. record on the path replaced
    scen.append(("replace-inner-record", [("decl", "কনফিগ", G.rec((G.s("opts"), G.rec((G.s("n"), G.num(1)))))), ("decl", "আগের", G.idx(V("কনফিগ"), G.s("opts"))),
                                           ("func", "নতুন", [], [("assign", "কনফিগ", [G.s("opts")], G.rec((G.s("n"), G.num(0)))), ("return", G.num(9))]),
                                           ("assign", "কনফিগ", [G.s("opts"), G.s("n")], G.call("নতুন")),
                                           ("print", G.idx(G.idx(V("কনফিগ"), G.s("opts")), G.s("n"))), ("print", G.idx(V("আগের"), G.s("n")))]))
    # 4. index variable advanced by the right-hand side
    scen.append(("advance-index", [("decl", "বাফার", G.lst(G.num(0), G.num(0), G.num(0))), ("decl", "পজ", G.num(0)),
                                    ("func", "পড়ো", [], [("assign", "পজ", [], G.bin_("+", V("পজ"), G.num(1))), ("return", G.num(5))]),
                                    ("assign", "বাফার", [V("পজ")], G.call("পড়ো")), ("print", G.idx(V("বাফার"), V("পজ"))), ("print", V("বাফার"))]))
    # 5. the target grows / shrinks while the value is computed
    scen.append(("grow-target", [("decl", "সারি", G.lst(G.num(1))),
                                  ("func", "বাড়াও", [], [("expr", G.call("_লিস্ট-পুশ", V("সারি"), G.num(2))), ("return", G.num(8))]),
                                  ("assign", "সারি", [G.num(1)], G.call("বাড়াও")), ("print", V("সারি"))]))
    scen.append(("shrink-target", [("decl", "সারি", G.lst(G.num(1), G.num(2))),
                                    ("func", "কমাও", [], [("expr", G.call("_লিস্ট-পপ", V("সারি"))), ("return", G.num(8))]),
                                    ("print", G.s("আগে")), ("assign", "সারি", [G.num(1)], G.call("কমাও")), ("print", V("সারি"))]))
    # 6. the same inside a function on a parameter, and with the side effect in an index expression instead
    scen.append(("index-expression-effect", [("decl", "বাফার", G.lst(G.num(0), G.num(0), G.num(0))), ("decl", "পজ", G.num(0)),
                                              ("func", "পরের-ঘর", [], [("assign", "পজ", [], G.bin_("+", V("পজ"), G.num(1))), ("return", V("পজ"))]),
                                              ("assign", "বাফার", [G.call("পরের-ঘর")], G.bin_("*", V("পজ"), G.num(10))), ("print", V("বাফার")), ("print", V("পজ"))]))
    scen.append(("param-rebind", [("func", "কাজ", ["ত"], [("decl", "পুরনো", V("ত")),
                                                          ("func", "ভিতর", [], [("return", G.num(3))]),
                                                          ("assign", "ত", [G.num(0)], G.call("ভিতর")), ("return", V("পুরনো"))]),
                                   ("decl", "ক", G.lst(G.num(1), G.num(2))), ("print", G.call("কাজ", V("ক"))), ("print", V("ক"))]))
    # 7. an index expression changes the path it is part of: all index expressions are evaluated first (left to right), then the
    #    path is walked from the variable's container — a later index expression that inserts a row in front, replaces an inner
    #    container (list or record) or re-binds the root decides which container the write lands in
    scen.append(("index-inserts-row", [("decl", "ত", G.lst(G.lst(G.num(1), G.num(2)), G.lst(G.num(3), G.num(4)))), ("decl", "সারি০", G.idx(V("ত"), G.num(0))),
                                        ("func", "সামনে", [], [("expr", G.call("_লিস্ট-পুশ", V("ত"), G.num(0), G.lst(G.num(7), G.num(7)))), ("return", G.num(1))]),
                                        ("assign", "ত", [G.num(0), G.call("সামনে")], G.num(99)),
                                        ("print", V("ত")), ("print", G.idx(G.idx(V("ত"), G.num(0)), G.num(1))), ("print", V("সারি০"))]))
    scen.append(("index-replaces-inner", [("decl", "ত", G.lst(G.lst(G.num(1), G.num(2)), G.lst(G.num(3), G.num(4)))), ("decl", "পুরনো", G.idx(V("ত"), G.num(0))),
                                           ("func", "বদল", [], [("assign", "ত", [G.num(0)], G.lst(G.num(5), G.num(6))), ("return", G.num(1))]),
                                           ("assign", "ত", [G.num(0), G.call("বদল")], G.num(99)),
                                           ("print", V("ত")), ("print", V("পুরনো"))]))
    scen.append(("index-rebinds-root", [("decl", "x", G.lst(G.num(10), G.num(20), G.num(30))), ("decl", "আগের", V("x")),
                                         ("func", "নতুন-মূল", [], [("assign", "x", [], G.lst(G.num(1), G.num(2), G.num(3))), ("return", G.num(0))]),
                                         ("assign", "x", [G.call("নতুন-মূল")], G.num(5)),
                                         ("print", V("x")), ("print", G.idx(V("x"), G.num(0))), ("print", V("আগের"))]))
    scen.append(("index-replaces-record", [("decl", "ন", G.rec((G.s("a"), G.rec((G.s("n"), G.num(1)))))), ("decl", "আগের", G.idx(V("ন"), G.s("a"))),
                                            ("func", "চাবি", [], [("assign", "ন", [G.s("a")], G.rec((G.s("n"), G.num(2)))), ("return", G.s("n"))]),
                                            ("assign", "ন", [G.s("a"), G.call("চাবি")], G.num(42)),
                                            ("print", G.idx(G.idx(V("ন"), G.s("a")), G.s("n"))), ("print", G.idx(V("আগের"), G.s("n")))]))
    scen.append(("first-index-effect-second-bad", [("decl", "ত", G.lst(G.lst(G.num(1)), G.lst(G.num(2)))),
                                                    ("func", "বলো", [], [("print", G.s("সূচক-গোনা")), ("return", G.num(0))]),
                                                    ("assign", "ত", [G.num(5), G.call("বলো")], G.num(9)), ("print", V("ত"))]))
    for name, prog in scen:
        for mode in ("lines", "oneline"):
            out.append(prog_case("rhs-side-effect", prog, mode=mode, info={"scenario": name}))
    return out



def index_boundary_family(tier="quick"):
    """every way of addressing a list position (read, indexed write, write through a nested path, insert-at, remove-at)
    with index values on and next to every boundary: -1, a negative fraction, minus zero, 0, a fraction, last, last + fraction,
    length, beyond, huge, and computed not-a-number / infinity / negative fraction; the list, an alias of it and a container
    holding it are printed before and after, so a write that lands on another element than the addressed one, or succeeds where
    the position does not exist, shows"""
    vals = [("minus-one", G.num(-1)), ("neg-fraction", G.num("-0.5")), ("minus-zero", G.un("-", G.num(0))), ("zero", G.num(0)),
            ("fraction", G.num("0.5")), ("last", G.num(2)), ("last-and-fraction", G.num("2.5")), ("length", G.num(3)),
            ("beyond", G.num("3.5")), ("huge", G.num("1" + "0" * 18)),
            ("computed-neg-fraction", G.bin_("/", G.bin_("-", G.num(0), G.num(1)), G.num(2))),
            ("nan", G.bin_("/", G.num(0), G.num(0))), ("infinity", G.bin_("/", G.num(1), G.num(0))),
            ("neg-tiny", G.bin_("/", G.bin_("-", G.num(0), G.num(1)), G.num("1" + "0" * 18)))]
    out = []
    for vn, ix in vals:
        for op in ("read", "write", "write-nested", "write-second-level", "push-at", "pop-at"):
            prog = [("decl", "তা", G.lst(G.num(10), G.num(20), G.num(30))), ("decl", "অন্য", G.var("তা")),
                    ("decl", "ধার", G.lst(G.var("তা"), G.lst(G.num(41), G.num(50)))), ("print", G.var("তা"))]
            if op == "read":
                act = [("print", G.idx(G.var("তা"), ix))]
            elif op == "write":
                act = [("assign", "তা", [ix], G.num(99))]
            elif op == "write-nested":
                act = [("assign", "ধার", [G.num(0), ix], G.num(99))]
            elif op == "write-second-level":
                act = [("assign", "ধার", [ix, G.num(0)], G.num(99))]
            elif op == "push-at":
                act = [("expr", G.call("_লিস্ট-পুশ", G.var("তা"), ix, G.num(99)))]
            else:
                act = [("expr", G.call("_লিস্ট-পপ", G.var("তা"), ix))]
            prog += act + [("print", G.s("পরে")), ("print", G.var("তা")), ("print", G.var("অন্য")), ("print", G.var("ধার")),
                           ("print", G.call("_লিস্ট-লেন", G.var("তা")))]
            out.append(prog_case("index-boundary", prog, info={"index": vn, "op": op}))
    return out

def key_spelling_family():
    """record keys are compared code point by code point: two keys that render alike (precomposed য় ড় ঢ় vs letter + nukta,
    a conjunct with / without a zero-width joiner, Bangla vs ASCII digit, trailing blank) are different keys on every path
    (literal, read, indexed write at the top level and through a nested path, key listing by printing) and through aliases"""
    NUKTA, ZWJ, ZWNJ, YYA, RRA, RHA = "\u09bc", "\u200d", "\u200c", "\u09df", "\u09dc", "\u09dd"
    pairs = [("আ" + YYA, "আয" + NUKTA), ("ব" + RRA, "বড" + NUKTA), ("গা" + RHA, "গাঢ" + NUKTA), ("র" + ZWJ + "্যাংক", "র্যাংক"),
             ("শ" + ZWNJ + "ক্ত", "শক্ত"), ("১", "1"), ("ক", "ক "), ("Key", "key"), ("\u00e9", "e\u0301")]
    out = []
    for a, b in pairs:
        for first, second in ((a, b), (b, a)):
            for how in ("top", "nested", "alias", "fresh-key"):
                prog = [("decl", "খাতা", G.rec((G.s(first), G.num(100)), (G.s("অন্য"), G.num(40)))), ("decl", "নকল", G.var("খাতা")),
                        ("decl", "তাক", G.lst(G.rec((G.s(first), G.num(1))), G.num(7))), ("print", G.var("খাতা"))]
                if how == "top":
                    prog += [("assign", "খাতা", [G.s(first)], G.num(250)), ("print", G.idx(G.var("খাতা"), G.s(first))),
                             ("assign", "খাতা", [G.s(second)], G.num(7)), ("print", G.idx(G.var("খাতা"), G.s(first))), ("print", G.idx(G.var("খাতা"), G.s(second)))]
                elif how == "nested":
                    prog += [("assign", "তাক", [G.num(0), G.s(first)], G.num(2)), ("print", G.var("তাক")),
                             ("assign", "তাক", [G.num(0), G.s(second)], G.num(3)), ("print", G.var("তাক")), ("print", G.idx(G.idx(G.var("তাক"), G.num(0)), G.s(first)))]
                elif how == "alias":
                    prog += [("assign", "নকল", [G.s(first)], G.num(9)), ("print", G.idx(G.var("খাতা"), G.s(first))),
                             ("assign", "নকল", [G.s(second)], G.num(8)), ("print", G.var("খাতা"))]
                else:
                    prog += [("decl", "ফাঁকা", G.rec()), ("assign", "ফাঁকা", [G.s(first)], G.s("প্রথম")), ("print", G.idx(G.var("ফাঁকা"), G.s(first))),
                             ("print", G.var("ফাঁকা")), ("print", G.idx(G.var("ফাঁকা"), G.s(second))), ("print", G.s("পৌঁছানো উচিত না"))]
                prog += [("print", G.var("খাতা")), ("print", G.var("নকল")), ("print", G.bin_("==", G.s(first), G.s(second)))]
                out.append(prog_case("key-spelling", prog, info={"first": first, "second": second, "how": how}))
    return out

def cases(rng, tier, stats):
    out = []
    n = 15000 if tier == "thorough" else 600
    deep = 0
    for i in range(n):
        r = rng.fork(f"c{i}")
        cnt = [0]
        sh = gen_shape(r, 4) or Shape("list", [None, None])
        prog = [("func", "একই", ["x"], [("return", G.var("x"))]),
                ("func", "বদল", ["x", "v"], [("expr", G.call("_লিস্ট-পুশ", G.var("x"), G.var("v"))), ("return", None)]),
                ("decl", "ক", lit_of(r, sh, cnt))]
        aliases = ["ক"]
        # alias graph
        prog.append(("decl", "খ", G.var("ক"))); aliases.append("খ")
        prog.append(("decl", "গ", G.call("একই", G.var("খ")))); aliases.append("গ")
        prog.append(("decl", "ধারক", G.lst(G.var("ক"), G.rec((G.s("ভিতর"), G.var("গ")))))); aliases.append("ধারক")
        prog.append(("decl", "সংখ্যা", G.num(5))); prog.append(("decl", "নকল", G.var("সংখ্যা"))); prog.append(("assign", "নকল", [], G.num(6)))
        prog.append(("print", G.var("সংখ্যা")))
        wrote_deep = False
        for step in range(r.range(2, 7)):
            ps = paths(sh)
            k = r.below(10)
            if k < 6 and ps:
                p = r.choice(ps)
                cnt[0] += 1
                who = r.choice(["ক", "খ", "গ"])
                newv = G.num(1000 + cnt[0]) if r.chance(0.7) else G.lst(G.num(cnt[0]))
                prog.append(("assign", who, idx_exprs(p), newv))
                # keep the mirror in sync: the addressed slot becomes a scalar / a fresh 1-list
                node = sh
                for q in p[:-1]:
                    node = node.items[q[1]]
                node.items[p[-1][1]] = None if newv[0] == "num" else Shape("list", [None])
                prog.append(("print", read_expr(r.choice(["ক", "খ", "গ"]), p)))
                if len(p) >= 2:
                    wrote_deep = True
            elif k < 8 and sh.kind == "list":
                cnt[0] += 1
                if r.chance(0.5):
                    prog.append(("expr", G.call("_লিস্ট-পুশ", G.var(r.choice(["ক", "খ", "গ"])), G.num(cnt[0]))))
                else:
                    prog.append(("expr", G.call("বদল", G.var("খ"), G.num(cnt[0]))))
                sh.items.append(None)
            elif k == 8 and sh.kind == "list" and len(sh.items) > 1:
                prog.append(("expr", G.call("_লিস্ট-পপ", G.var(r.choice(["ক", "গ"])))))
                sh.items.pop()
            elif sh.kind == "list" and r.chance(0.6):
                # concatenation with an operand that is empty at run time must still give a new list
                empty_side = r.below(3)
                prog.append(("decl", "খালি", G.lst()))
                other = G.var(r.choice(["ক", "খ", "গ"]))
                e = [G.bin_("+", other, G.lst()), G.bin_("+", G.lst(), other), G.bin_("+", G.var("খালি"), other)][empty_side]
                prog.append(("decl", "অনুলিপি", e))
                prog.append(("print", G.bin_("==", G.var("অনুলিপি"), G.var("ক"))))
                prog.append(("print", G.bin_("==", G.var("অনুলিপি"), G.var("খালি"))))
                prog.append(("expr", G.call("_লিস্ট-পুশ", G.var("অনুলিপি"), G.s("অনুলিপিতে"))))
                prog.append(("assign", "অনুলিপি", [G.num(0)], G.s("বদল")))
                prog.append(("expr", G.call("_লিস্ট-পুশ", G.var("খালি"), G.s("খালিতে"))))
                prog.append(("print", G.var("অনুলিপি")))
                prog.append(("print", G.var("খালি")))
            elif sh.kind == "list":
                prog.append(("decl", "যোগফল", G.bin_("+", G.var("ক"), G.var("খ"))))
                prog.append(("expr", G.call("_লিস্ট-পুশ", G.var("যোগফল"), G.s("নতুন"))))
                prog.append(("assign", "যোগফল", [G.num(0)], G.s("বদলানো")))
                prog.append(("print", G.var("যোগফল")))
                prog.append(("print", G.bin_("==", G.var("যোগফল"), G.var("ক"))))
            elif sh.kind == "rec":
                cnt[0] += 1
                key = "নতুন" + str(cnt[0])
                prog.append(("assign", r.choice(["ক", "গ"]), [G.s(key)], G.num(cnt[0])))
                sh.items[key] = None
            for a in aliases:
                prog.append(("print", G.var(a)))
            prog.append(("print", G.bin_("==", G.var("ক"), G.var("গ"))))
        deep += wrote_deep
        out.append(prog_case("alias-graph", prog, rng=r, nontrivial=wrote_deep, info={"steps": len(prog)}))
    sc = self_concat_family(rng)
    out += sc
    fam = len(sc)
    stats["programs"] = n
    stats["with_deep_write"] = deep
    stats["self_concat_family"] = fam
    se = rhs_side_effect_family(rng)
    out += se
    stats["rhs_side_effect_family"] = len(se)
    op = operand_provenance_family(rng)
    out += op
    stats["operand_provenance_family"] = len(op)
    ib = index_boundary_family(tier)
    out += ib
    stats["index_boundary"] = len(ib)
    ks = key_spelling_family()
    out += ks
    stats["key_spelling_family"] = len(ks)
    # one name in two roles (props/collisions.py): shadowed functions, parameters named like globals / built-ins / their own function,
    # bare conditions, indexed and plain writes, re-declarations — every use of a name resolves to its innermost binding
    from props import collisions
    nc_ = collisions.family()
    out += nc_
    stats["name_collision_programs"] = len(nc_)
    return out
