"""C06 — lists and records are shared by reference; indexed write then read agree."""
import common as C
import gen as G
from props.base import prog_case

RULE = ("random container shapes (lists of lists, records of records, mixed, depth <= 4), random alias graphs built by "
        "assignment, argument passing, returning and storing into other containers, then random sequences of indexed "
        "writes through paths of length 1..4 (list positions and record keys mixed), pushes, pops and concatenations; "
        "after every step every alias is printed. Scalars are copied (checked by mutating the copy). Compared with the "
        "Lean model and the structured semantics (records up to entry order). Non-trivial: at least two aliases of one "
        "container and one write through a path of length >= 2.")
ASSUMPTIONS = ["record entry order is unspecified; outputs are matched up to permutation of entries"]
default_compare = lambda m, i: C.compare_run(m, i)
KEYS = ["k", "চ", "z"]


class Shape:
    """a Python mirror of the container graph, used only to generate valid paths"""
    def __init__(self, kind, items):
        self.kind, self.items = kind, items


def gen_shape(r, depth):
    if depth <= 0 or r.chance(0.35):
        return None
    if r.chance(0.55):
        return Shape("list", [gen_shape(r, depth - 1) for _ in range(r.range(1, 3))])
    ks = r.shuffle(KEYS)[: r.range(1, 3)]
    return Shape("rec", {k: gen_shape(r, depth - 1) for k in ks})


def lit_of(r, sh, counter):
    if sh is None:
        counter[0] += 1
        return G.num(counter[0]) if r.chance(0.8) else G.s("s" + str(counter[0]))
    if sh.kind == "list":
        return G.lst(*[lit_of(r, x, counter) for x in sh.items])
    return G.rec(*[(G.s(k), lit_of(r, v, counter)) for k, v in sh.items.items()])


def paths(sh, prefix=()):
    """all index paths to elements"""
    out = []
    if sh is None:
        return out
    if sh.kind == "list":
        for i, x in enumerate(sh.items):
            out.append(prefix + (("i", i),))
            out += paths(x, prefix + (("i", i),))
    else:
        for k, x in sh.items.items():
            out.append(prefix + (("k", k),))
            out += paths(x, prefix + (("k", k),))
    return out


def idx_exprs(path):
    return [G.num(p[1]) if p[0] == "i" else G.s(p[1]) for p in path]


def read_expr(name, path):
    e = G.var(name)
    for ix in idx_exprs(path):
        e = G.idx(e, ix)
    return e


def cases(rng, tier, stats):
    out = []
    n = 15000 if tier == "thorough" else 600
    deep = 0
    for i in range(n):
        r = rng.fork(f"c{i}")
        cnt = [0]
        sh = gen_shape(r, 4) or Shape("list", [None, None])
        prog = [("func", "একই", ["x"], [("return", G.var("x"))]),
                ("func", "বদল", ["x", "v"], [("expr", G.call("_লিস্ট-পুশ", G.var("x"), G.var("v"))), ("return", None)]),
                ("decl", "ক", lit_of(r, sh, cnt))]
        aliases = ["ক"]
        # alias graph
        prog.append(("decl", "খ", G.var("ক"))); aliases.append("খ")
        prog.append(("decl", "গ", G.call("একই", G.var("খ")))); aliases.append("গ")
        prog.append(("decl", "ধারক", G.lst(G.var("ক"), G.rec((G.s("ভিতর"), G.var("গ")))))); aliases.append("ধারক")
        prog.append(("decl", "সংখ্যা", G.num(5))); prog.append(("decl", "নকল", G.var("সংখ্যা"))); prog.append(("assign", "নকল", [], G.num(6)))
        prog.append(("print", G.var("সংখ্যা")))
        wrote_deep = False
        for step in range(r.range(2, 7)):
            ps = paths(sh)
            k = r.below(10)
            if k < 6 and ps:
                p = r.choice(ps)
                cnt[0] += 1
                who = r.choice(["ক", "খ", "গ"])
                newv = G.num(1000 + cnt[0]) if r.chance(0.7) else G.lst(G.num(cnt[0]))
                prog.append(("assign", who, idx_exprs(p), newv))
                # keep the mirror in sync: the addressed slot becomes a scalar / a fresh 1-list
                node = sh
                for q in p[:-1]:
                    node = node.items[q[1]]
                node.items[p[-1][1]] = None if newv[0] == "num" else Shape("list", [None])
                prog.append(("print", read_expr(r.choice(["ক", "খ", "গ"]), p)))
                if len(p) >= 2:
                    wrote_deep = True
            elif k < 8 and sh.kind == "list":
                cnt[0] += 1
                if r.chance(0.5):
                    prog.append(("expr", G.call("_লিস্ট-পুশ", G.var(r.choice(["ক", "খ", "গ"])), G.num(cnt[0]))))
                else:
                    prog.append(("expr", G.call("বদল", G.var("খ"), G.num(cnt[0]))))
                sh.items.append(None)
            elif k == 8 and sh.kind == "list" and len(sh.items) > 1:
                prog.append(("expr", G.call("_লিস্ট-পপ", G.var(r.choice(["ক", "গ"])))))
                sh.items.pop()
            elif sh.kind == "list" and r.chance(0.6):
                # concatenation with an operand that is empty at run time must still give a new list
                empty_side = r.below(3)
                prog.append(("decl", "খালি", G.lst()))
                other = G.var(r.choice(["ক", "খ", "গ"]))
                e = [G.bin_("+", other, G.lst()), G.bin_("+", G.lst(), other), G.bin_("+", G.var("খালি"), other)][empty_side]
                prog.append(("decl", "অনুলিপি", e))
                prog.append(("print", G.bin_("==", G.var("অনুলিপি"), G.var("ক"))))
                prog.append(("print", G.bin_("==", G.var("অনুলিপি"), G.var("খালি"))))
                prog.append(("expr", G.call("_লিস্ট-পুশ", G.var("অনুলিপি"), G.s("অনুলিপিতে"))))
                prog.append(("assign", "অনুলিপি", [G.num(0)], G.s("বদল")))
                prog.append(("expr", G.call("_লিস্ট-পুশ", G.var("খালি"), G.s("খালিতে"))))
                prog.append(("print", G.var("অনুলিপি")))
                prog.append(("print", G.var("খালি")))
            elif sh.kind == "list":
                prog.append(("decl", "যোগফল", G.bin_("+", G.var("ক"), G.var("খ"))))
                prog.append(("expr", G.call("_লিস্ট-পুশ", G.var("যোগফল"), G.s("নতুন"))))
                prog.append(("assign", "যোগফল", [G.num(0)], G.s("বদলানো")))
                prog.append(("print", G.var("যোগফল")))
                prog.append(("print", G.bin_("==", G.var("যোগফল"), G.var("ক"))))
            elif sh.kind == "rec":
                cnt[0] += 1
                key = "নতুন" + str(cnt[0])
                prog.append(("assign", r.choice(["ক", "গ"]), [G.s(key)], G.num(cnt[0])))
                sh.items[key] = None
            for a in aliases:
                prog.append(("print", G.var(a)))
            prog.append(("print", G.bin_("==", G.var("ক"), G.var("গ"))))
        deep += wrote_deep
        out.append(prog_case("alias-graph", prog, rng=r, nontrivial=wrote_deep, info={"steps": len(prog)}))
    stats["programs"] = n
    stats["with_deep_write"] = deep
    return out
