"""C07 — garbage collection is invisible: it never frees or alters reachable data."""
import itertools
import common as C
import gen as G
import proggen
from props.base import run_req, cmp_run
from props import C06

RULE = ("(i) GC requests on caller-supplied heaps through the verif_collect hook: every heap with <= 2 lists and <= 1 record "
        "of <= 2 references each, every root set over 2 variables and every pre-existing free list (quick: a seeded sample of "
        "that space; thorough: all of it, plus 3 lists / 2 records sampled) and random heaps up to 40 objects with cycles, sharing "
        "and list<->record nesting over 1..3 scopes. Oracle: Python reachability — every reachable slot keeps its content, and "
        "the post-state equals the Lean model's. (ii) allocation-heavy and aliasing programs run with the collection schedule "
        "forced to never / always / three random masks over the statement boundaries: the implementation's output and end "
        "status must be identical under every schedule, and each run equals the model's. "
        "Non-trivial: the heap has a cycle or an unreachable object / the program allocates at least 10 containers."
        ' Root names of every shape (leading `_`, joiners, non-ASCII) in the random heaps and in the allocation programs.')
ASSUMPTIONS = ["collections happen only at top-level statement boundaries (that is where Interpreter::run may collect)"]
default_compare = C.compare_exact


def val_txt(v):
    return v


def enc_groups(gs):
    return ";".join(g if g else "." for g in gs)


def gc_request(scopes, lists, records, freeL, freeR):
    sc = enc_groups([",".join(f"{C.hx(k)}={v}" for k, v in s) for s in scopes])
    ls = enc_groups([",".join(l) for l in lists])
    rs = enc_groups([",".join(f"{C.hx(k)}={v}" for k, v in r) for r in records])
    return f"GC scopes={sc} lists={ls} records={rs} freeL={','.join(map(str, freeL))} freeR={','.join(map(str, freeR))}"


def reach(scopes, lists, records):
    seenL, seenR = set(), set()
    stack = [v for s in scopes for _, v in s]
    while stack:
        v = stack.pop()
        if v[0] == "l":
            i = int(v[1:])
            if i not in seenL:
                seenL.add(i); stack += lists[i]
        elif v[0] == "r" and v[1:].isdigit():
            i = int(v[1:])
            if i not in seenR:
                seenR.add(i); stack += [x for _, x in records[i]]
    return seenL, seenR


def parse_heap(ans):
    d = dict(kv.split("=", 1) for kv in ans.split(" ")[1:])
    gl = lambda t: [] if t == "" else [([] if g == "." else g.split(",")) for g in t.split(";")]
    lists = gl(d["lists"])
    records = [[tuple(e.split("=")) for e in g] for g in gl(d["records"])]
    fl = [int(x) for x in d["freeL"].split(",")] if d["freeL"] else []
    fr = [int(x) for x in d["freeR"].split(",")] if d["freeR"] else []
    return lists, records, fl, fr


def heap_oracle(case, impl, model):
    probs = []
    for j, h in enumerate(case.info["heaps"]):
        a = impl[j]
        scopes, lists, records, freeL, freeR = h
        if not a.startswith("ok "):
            probs.append(f"heap {j}: collector answered {a[:100]}")
            continue
        L, R, fl, fr = parse_heap(a)
        rl, rr = reach(scopes, lists, records)
        for i in rl:
            if L[i] != lists[i]:
                probs.append(f"heap {j}: reachable list {i} changed from {lists[i]} to {L[i]}")
        for i in rr:
            if sorted(R[i]) != sorted((C.hx(k), v) for k, v in records[i]):
                probs.append(f"heap {j}: reachable record {i} changed")
        if set(fl) & rl or set(fr) & rr:
            # a reachable slot on the free list would be handed out again (only if it was not free before)
            if (set(fl) - set(freeL)) & rl or (set(fr) - set(freeR)) & rr:
                probs.append(f"heap {j}: a reachable slot was put on the free list")
        if len(L) != len(lists) or len(R) != len(records):
            probs.append(f"heap {j}: arena size changed")
        if len(fl) != len(set(fl)) or len(fr) != len(set(fr)):
            # two later allocations would be handed the same slot: a collection that is not invisible
            probs.append(f"heap {j}: a slot is on a free list more than once after the collection ({fl} / {fr})")
    return probs[:3]


def small_heaps(nl, nr, full, rng, limit):
    """heaps with nl lists / nr records of <= 2 references, 2 root variables, any free lists"""
    vals = [f"l{i}" for i in range(nl)] + [f"r{i}" for i in range(nr)] + ["n3ff0000000000000"]
    contents = [()] + [(a,) for a in vals] + [(a, b) for a in vals for b in vals]
    roots = [()] + [(a,) for a in vals[:-1]] + [(a, b) for a in vals[:-1] for b in vals[:-1] if a < b]
    out = []
    space = itertools.product(*([contents] * (nl + nr)), roots, range(1 << nl), range(1 << nr))
    if full:
        it = space
    else:
        allv = None
        it = None
    if full:
        for tup in it:
            conts, (rt, fm, rm) = tup[:nl + nr], tup[nl + nr:]
            out.append(mk_small(conts, rt, fm, rm, nl, nr))
    else:
        for _ in range(limit):
            conts = [rng.choice(contents) for _ in range(nl + nr)]
            out.append(mk_small(conts, rng.choice(roots), rng.below(1 << nl), rng.below(1 << nr), nl, nr))
    return out


def mk_small(conts, rt, fm, rm, nl, nr):
    lists = [list(c) for c in conts[:nl]]
    records = [[(f"k{j}", v) for j, v in enumerate(c)] for c in conts[nl:]]
    scopes = [[(f"v{j}", v) for j, v in enumerate(rt)]]
    return (scopes, lists, records, [i for i in range(nl) if fm >> i & 1], [i for i in range(nr) if rm >> i & 1])


def random_heap(r):
    nl, nr = r.range(1, 25), r.range(0, 15)
    vals = [f"l{i}" for i in range(nl)] + [f"r{i}" for i in range(nr)]
    def v():
        return r.choice(vals) if r.chance(0.6) else r.choice(["n4000000000000000", "b1", "s" + C.hx("ক"), "z"])
    lists = [[v() for _ in range(r.below(4))] for _ in range(nl)]
    records = [[(f"k{j}", v()) for j in range(r.below(4))] for _ in range(nr)]
    # half of the heaps SHADOW: the same variable name is bound in several open scopes (to different containers) — every
    # binding of every scope is a root, not only the innermost one of each name
    shadow = r.chance(0.5)
    # … under names of every shape (starting with `_` like the built-in names, outside ASCII, with joiners, one character):
    # a binding is a root whatever it is called
    shapes = ["v{}", "_v{}", "_\u09a4\u09be\u09b2\u09bf\u0995\u09be{}", "\u0995{}", "\u09b0\u200d\u09cd\u09af{}", "__{}", "-{}", "V{}"]
    sh = r.choice(shapes) if r.chance(0.5) else None
    def nm(s_, j):
        base = f"{j}" if shadow else f"{s_}{j}"
        return (sh or r.choice(shapes)).format(base)
    scopes = [[(nm(s, j), v()) for j in range(r.below(4))] for s in range(r.range(1, 4 if shadow else 3))]
    return (scopes, lists, records, [i for i in range(nl) if r.chance(0.1)], [i for i in range(nr) if r.chance(0.1)])


def schedule_oracle(case, impl, model):
    """every schedule prints what the run without collection prints (record entries up to order: a Rust
    HashMap iterates in a per-instance random order) and ends the same way"""
    ans = [C.RunAns(x) for x in impl]
    base = ans[0]
    tpl = C.RunAns(model[0]).out
    probs = []
    for k, a in enumerate(ans[1:], 1):
        if a.kind in ("abort", "panic"):
            probs.append(f"schedule {case.info['schedules'][k]}: {a.raw[:120]}")
            continue
        same_out = a.out == base.out or (tpl is not None and a.out is not None and base.out is not None
                                         and C.match_template(tpl, a.out) and C.match_template(tpl, base.out))
        if not same_out or a.status[:3] != base.status[:3]:
            probs.append(f"schedule {case.info['schedules'][k]}: output/status {a.out!r} {a.status[:3]} differs from the run with no collection {base.out!r} {base.status[:3]}")
    return probs[:2]


def alloc_program(r):
    """top-level code that allocates, drops, shares and nests containers across scopes"""
    prog = [("decl", "রাখা", G.lst()), ("decl", "নথি", G.rec((G.s("তালিকা"), G.lst(G.num(1))))), ("decl", "গ", G.num(0)),
            ("func", "বানাও", ["n"], [("decl", "স্থানীয়", G.lst(G.var("n"), G.lst(G.var("n")))), ("return", G.var("স্থানীয়"))])]
    body = [("assign", "গ", [], G.bin_("+", G.var("গ"), G.num(1))), ("if", [(G.bin_(">", G.var("গ"), G.num(r.range(3, 9))), [("break",)])], None),
            ("decl", "অস্থায়ী", G.lst(G.var("গ"), G.s("x"), G.lst(G.var("গ")))),
            ("decl", "চক্র", G.lst(G.num(0)))]
    if r.chance(0.7):
        body.append(("assign", "চক্র", [G.num(0)], G.var("চক্র")))          # a cycle
    if r.chance(0.7):
        body.append(("expr", G.call("_লিস্ট-পুশ", G.var("রাখা"), G.var("অস্থায়ী"))))
    if r.chance(0.5):
        body.append(("assign", "নথি", [G.s("তালিকা")], G.call("বানাও", G.var("গ"))))
    if r.chance(0.5):
        body.append(("block", [("decl", "ভিতরে", G.bin_("+", G.var("অস্থায়ী"), G.var("রাখা"))), ("print", G.call("_লিস্ট-লেন", G.var("ভিতরে"))),
                               ("decl", "আরও", G.rec((G.s("k"), G.var("ভিতরে")), (G.s("চ"), G.rec())))]))
    if r.chance(0.6):
        # open blocks that SHADOW the long-lived containers while allocation (and collections) go on inside them
        inner = [("decl", "রাখা", r.choice([G.num(1), G.lst(G.s("ছায়া")), G.s("x")])), ("decl", "নথি", r.choice([G.b(True), G.rec((G.s("ছ"), G.lst()))])),
                 ("decl", "ভরাট", G.lst(G.lst(G.var("গ")), G.rec((G.s("a"), G.lst(G.num(2)))))), ("print", G.var("রাখা"))]
        body.append(("if", [(G.b(True), inner)], None) if r.chance(0.5) else ("block", inner))
    if r.chance(0.4):
        body.append(("decl", "ভাগ", G.call("_স্ট্রিং-স্প্লিট", G.s("a,b,c"), G.s(","))))
        body.append(("print", G.idx(G.var("ভাগ"), G.num(1))))
    # long-lived containers under names that look like built-in names (leading `_`) or carry a joiner
    odd = r.choice(["_\u09a5\u09b2\u09bf", "_\u09a4\u09be\u09b2\u09bf\u0995\u09be", "\u09b0\u200d\u09cd\u09af\u09be\u0982\u0995", "__", "_x"])
    prog.insert(0, ("decl", odd, G.lst(G.num(7), G.lst(G.num(8)), G.rec((G.s("k"), G.lst(G.num(9)))))))
    body.append(("print", G.var("রাখা")))
    body.append(("print", G.idx(G.var("নথি"), G.s("তালিকা"))))
    prog.append(("loop", body))
    prog.append(("print", G.var(odd)))
    prog.append(("print", G.var("রাখা")))
    prog.append(("print", G.call("_লিস্ট-লেন", G.idx(G.var("নথি"), G.s("তালিকা")))))
    return prog


def temporaries_program(r):
    """fresh, not yet stored containers are alive while a callee that allocates past the collection
    threshold runs: collections may happen only at top-level statement boundaries, never in between"""
    n = r.choice([150, 260, 400])
    heavy = ("func", "ভারী", ["n"], [("decl", "i", G.num(0)),
                                      ("loop", [("if", [(G.bin_(">=", G.var("i"), G.var("n")), [("break",)])], None),
                                                ("assign", "i", [], G.bin_("+", G.var("i"), G.num(1))),
                                                ("decl", "t", G.lst(G.var("i"), G.var("i"), G.lst(G.var("i")), G.rec((G.s("k"), G.var("i")))))]),
                                      ("return", G.var("n"))])
    call = G.call("ভারী", G.num(n))
    fresh = lambda: r.choice([G.lst(G.s("ক"), G.s("খ")), G.rec((G.s("নাম"), G.s("পাখি"))), G.lst(G.lst(G.num(1)), G.num(2)), G.call("_স্ট্রিং-স্প্লিট", G.s("গ,ঘ"), G.s(","))])
    prog = [heavy, ("func", "দুই", ["a", "b"], [("return", G.lst(G.var("a"), G.var("b")))])]
    for k in range(r.range(2, 5)):
        shape = r.below(6)
        name = "ফল" + G.bn_digits(str(k))
        if shape == 0:
            prog.append(("decl", name, G.lst(fresh(), fresh(), call)))
        elif shape == 1:
            prog.append(("decl", name, G.rec((G.s("আগে"), fresh()), (G.s("সংখ্যা"), call), (G.s("পরে"), fresh()))))
        elif shape == 2:
            prog.append(("decl", name, G.bin_("+", G.lst(fresh()), G.lst(call))))
        elif shape == 3:
            prog.append(("decl", name, G.call("দুই", fresh(), call)))
        elif shape == 4:
            prog.append(("decl", name, G.lst(G.lst(fresh(), G.lst(fresh(), call)))))
        else:
            prog.append(("decl", name, G.call("দুই", G.call("দুই", fresh(), fresh()), G.bin_("+", call, G.num(1)))))
        prog.append(("print", G.var(name)))
    return prog


def cases(rng, tier, stats):
    out = []
    heaps = []
    if tier == "thorough":
        heaps += small_heaps(2, 1, True, rng, 0)
        heaps += small_heaps(3, 2, False, rng, 60000)
        stats["exhaustive"] = True
        stats["exhaustive_space"] = "all heaps with 2 lists and 1 record of <= 2 references, all root sets over them, all free lists"
    else:
        heaps += small_heaps(2, 1, False, rng, 4000)
        heaps += small_heaps(3, 2, False, rng, 3000)
    nrand = 20000 if tier == "thorough" else 1500
    heaps += [random_heap(rng.fork(f"h{i}")) for i in range(nrand)]
    stats["heaps"] = len(heaps)
    unreachable = 0
    for i in range(0, len(heaps), 250):
        chunk = heaps[i:i + 250]
        out.append(C.Case("gc-heaps", [gc_request(*h) for h in chunk], C.compare_exact, heap_oracle, info={"heaps": chunk, "first": gc_request(*chunk[0])[:300]}))
    # programs under forced schedules
    n = 3000 if tier == "thorough" else 150
    for i in range(n):
        r = rng.fork(f"p{i}")
        k = r.below(3)
        if k == 0:
            prog = alloc_program(r)
        elif k == 1:
            pg = proggen.ProgGen(r, max_depth=3)
            prog = pg.program(r.range(5, 10))
        else:
            prog = alloc_program(r) + proggen.ProgGen(r, max_depth=2).program(4)
        src = G.source(prog, "lines")
        nb = 400
        scheds = ["never", "always"] + ["mask:" + "".join("1" if r.chance(p) else "0" for _ in range(nb)) for p in (0.5, 0.1, 0.9)]
        lines = [run_req(src, gc=s) for s in scheds]
        out.append(C.Case("gc-schedules", lines, cmp_run(), schedule_oracle, info={"src": src, "schedules": scheds}))
    stats["programs"] = n
    stats["schedules_per_program"] = 5
    # natively triggered collections while unstored temporaries are alive inside an expression
    m = 400 if tier == "thorough" else 40
    for i in range(m):
        r = rng.fork(f"t{i}")
        src = G.source(temporaries_program(r), "lines")
        scheds = ["never", "native", "always"]
        lines = [run_req(src, gc=sc, steps=4000000, fuel=4000000) for sc in scheds]
        out.append(C.Case("gc-temporaries", lines, cmp_run(), schedule_oracle, info={"src": src, "schedules": scheds}))
    stats["temporaries_programs"] = m
    return out
