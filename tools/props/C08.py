"""C08 — every collection reclaims all unreachable containers; heap stays bounded."""
import common as C
import gen as G
from props.base import run_req, cmp_run
from props import C07

RULE = ("(i) the GC requests of C07 with a completeness oracle: after a collection every unreachable list and record is "
        "empty and on the free list exactly once, reachable slots are not on it unless they were before, free lists have no "
        "duplicates; post-state equals the Lean model's. (ii) top-level allocation loops over every allocation route "
        "(list literal, empty list, record literal, empty record, nested literal, concatenation, _স্ট্রিং-স্প্লিট, "
        "_রিড-ডাইরেক্টরি) run natively for N and 4N iterations; through the snapshot hook the arena sizes, free-list sizes and the "
        "number of natively triggered collections are read. Oracle: the arena after 4N iterations stays within threshold + 16 slots and within 16 slots of its size after N "
        "(N is past the first collection) and at least one collection happened; the numbers equal the model's prediction. "
        "Non-trivial: the heap has an unreachable object / the loop crosses the trigger at least twice."
        ' Shared name-collision family (props/collisions.py): 24 scenarios in which one name is bound more than once, x 2 layouts.')
ASSUMPTIONS = ["the collection threshold (1000) is tied to the source by SrcFactsAgree.threshold_agree"]
default_compare = C.compare_exact


def complete_oracle(case, impl, model):
    probs = []
    for j, h in enumerate(case.info["heaps"]):
        a = impl[j]
        scopes, lists, records, freeL, freeR = h
        if not a.startswith("ok "):
            probs.append(f"heap {j}: collector answered {a[:100]}")
            continue
        L, R, fl, fr = C07.parse_heap(a)
        rl, rr = C07.reach(scopes, lists, records)
        if len(fl) != len(set(fl)) or len(fr) != len(set(fr)):
            probs.append(f"heap {j}: duplicate entries on a free list {fl} {fr}")
        for i in range(len(lists)):
            if i not in rl:
                if L[i] != []:
                    probs.append(f"heap {j}: unreachable list {i} was not emptied")
                if i not in fl:
                    probs.append(f"heap {j}: unreachable list {i} is not on the free list")
        for i in range(len(records)):
            if i not in rr:
                if R[i] != []:
                    probs.append(f"heap {j}: unreachable record {i} was not emptied")
                if i not in fr:
                    probs.append(f"heap {j}: unreachable record {i} is not on the free list")
        if set(fl) - set(freeL) - (set(range(len(lists))) - rl) or set(fr) - set(freeR) - (set(range(len(records))) - rr):
            probs.append(f"heap {j}: a reachable slot was freed")
    return probs[:3]


ROUTES = {
    "list-literal": ("decl", "ট", G.lst(G.var("গ"), G.num(2), G.num(3))),
    "empty-list": ("decl", "ট", G.lst()),
    "record-literal": ("decl", "ট", G.rec((G.s("k"), G.var("গ")), (G.s("চ"), G.num(2)))),
    "empty-record": ("decl", "ট", G.rec()),
    "nested": ("decl", "ট", G.lst(G.lst(G.var("গ")), G.rec((G.s("k"), G.lst())))),
    "concat": ("decl", "ট", G.bin_("+", G.var("ভিত্তি"), G.var("ভিত্তি"))),
    "split": ("decl", "ট", G.call("_স্ট্রিং-স্প্লিট", G.s("a,b,c"), G.s(","))),
    "cycle": ("decl", "ট", G.lst(G.num(0))),
    "index-temporaries": ("assign", "ভিত্তি", [G.num(0)], G.var("গ")),
}


def loop_prog(route, iters):
    body = [("assign", "গ", [], G.bin_("+", G.var("গ"), G.num(1))), ("if", [(G.bin_(">", G.var("গ"), G.num(iters)), [("break",)])], None), ROUTES[route]]
    if route == "cycle":
        body.append(("assign", "ট", [G.num(0)], G.var("ট")))
    return [("decl", "গ", G.num(0)), ("decl", "ভিত্তি", G.lst(G.num(1), G.num(2))), ("loop", body), ("print", G.var("গ"))]


def bounded_oracle(case, impl, model):
    a, b = C.RunAns(impl[0]), C.RunAns(impl[1])
    if a.kind != "ok" or b.kind != "ok":
        return [f"allocation loop ended with {a.status[:3]} / {b.status[:3]}"]
    probs = []
    if int(b.extra.get("colls", 0)) < 2:
        probs.append(f"route {case.info['route']}: only {b.extra.get('colls')} collections in {case.info['iters'][1]} iterations")
    # at most `threshold` allocation units pass between two collections and each object costs at least one unit, so neither
    # arena can ever hold more than threshold + (objects of one statement) slots, whatever the number of iterations
    for k in ("nlists", "nrecords"):
        na, nb = int(a.extra.get(k, -1)), int(b.extra.get(k, -1))
        if nb > 1000 + 32 or na > 1000 + 32:
            probs.append(f"route {case.info['route']}: {k} is {na} after {case.info['iters'][0]} iterations and {nb} after {case.info['iters'][1]} (bound 1032)")
    # every reclaimed slot is on its free list exactly once, so a free list is never longer than its arena
    for x, tag in ((a, case.info["iters"][0]), (b, case.info["iters"][1])):
        for dup, nf, na_ in (("dupL", "nfreeL", "nlists"), ("dupR", "nfreeR", "nrecords")):
            if int(x.extra.get(dup, 0)) != 0:
                probs.append(f"route {case.info['route']}: after {tag} iterations {x.extra.get(dup)} slots are on the free list more than once (reclaimed twice)")
            if int(x.extra.get(nf, 0)) > int(x.extra.get(na_, 0)):
                probs.append(f"route {case.info['route']}: after {tag} iterations the free list ({x.extra.get(nf)}) is longer than the arena ({x.extra.get(na_)})")
    return probs


def cases(rng, tier, stats):
    out = []
    heaps = C07.small_heaps(2, 1, tier == "thorough", rng, 4000) + C07.small_heaps(3, 2, False, rng, 60000 if tier == "thorough" else 3000)
    heaps += [C07.random_heap(rng.fork(f"h{i}")) for i in range(20000 if tier == "thorough" else 1500)]
    if tier == "thorough":
        stats["exhaustive"] = True
        stats["exhaustive_space"] = "all heaps with 2 lists and 1 record of <= 2 references, all root sets, all free lists"
    stats["heaps"] = len(heaps)
    for i in range(0, len(heaps), 250):
        chunk = heaps[i:i + 250]
        out.append(C.Case("gc-heaps-complete", [C07.gc_request(*h) for h in chunk], C.compare_exact, complete_oracle, info={"heaps": chunk, "first": C07.gc_request(*chunk[0])[:300]}))
    N = 2500 if tier == "thorough" else 1200
    for route in ROUTES:
        a, b = G.source(loop_prog(route, N), "lines"), G.source(loop_prog(route, 4 * N), "lines")
        lines = [run_req(a, heap=1, steps=5000000, fuel=5000000), run_req(b, heap=1, steps=5000000, fuel=5000000)]
        ex = ("nlists", "nfreeL", "nrecords", "nfreeR", "colls")
        out.append(C.Case("allocation-loop", lines, cmp_run(extra=ex), bounded_oracle, info={"route": route, "iters": (N, 4 * N), "src": a}))
    # two-phase histories: containers of one kind are allocated, dropped and reclaimed first, then a long loop allocates
    # only the other kind (a free slot of the wrong kind must not keep collections from happening)
    def two_phase(a, b_, iters):
        first = [("decl", "গ", G.num(0)), ("decl", "ভিত্তি", G.lst(G.num(1), G.num(2))),
                 ("loop", [("assign", "গ", [], G.bin_("+", G.var("গ"), G.num(1))), ("if", [(G.bin_(">", G.var("গ"), G.num(700)), [("break",)])], None), ROUTES[a]]),
                 ("assign", "গ", [], G.num(0))]
        second = [("loop", [("assign", "গ", [], G.bin_("+", G.var("গ"), G.num(1))), ("if", [(G.bin_(">", G.var("গ"), G.num(iters)), [("break",)])], None), ROUTES[b_]]),
                  ("print", G.var("গ"))]
        return first + second
    pairs = [("record-literal", "list-literal"), ("list-literal", "record-literal"), ("empty-record", "empty-list"), ("nested", "split"),
             ("empty-list", "record-literal"), ("record-literal", "concat")]
    for a_, b_ in pairs:
        p1, p2 = G.source(two_phase(a_, b_, N), "lines"), G.source(two_phase(a_, b_, 4 * N), "lines")
        lines = [run_req(p1, heap=1, steps=8000000, fuel=8000000), run_req(p2, heap=1, steps=8000000, fuel=8000000)]
        ex = ("nlists", "nfreeL", "nrecords", "nfreeR", "colls")
        out.append(C.Case("allocation-two-phase", lines, cmp_run(extra=ex), bounded_oracle, info={"route": f"{a_} then {b_}", "iters": (N, 4 * N), "src": p1}))
    stats["two_phase_pairs"] = [f"{a_}->{b_}" for a_, b_ in pairs]
    stats["allocation_routes"] = list(ROUTES)
    stats["iterations"] = [N, 4 * N]
    # one name in two roles (props/collisions.py): shadowed functions, parameters named like globals / built-ins / their own function,
    # bare conditions, indexed and plain writes, re-declarations — every use of a name resolves to its innermost binding
    from props import collisions
    nc_ = collisions.family()
    out += nc_
    stats["name_collision_programs"] = len(nc_)
    return out
