"""C09 — numbers keep their value across literal, print and conversion."""
import struct
from decimal import Decimal
import common as C
import gen as G

RULE = ("(i) NUMFMT/NUMPARSE/FMOD: the model's exact printer, parser and remainder against Rust's Display, FromStr and % "
        "on edge doubles and random bit patterns; (ii) literals: every literal with <= 3 (quick) / 4 (thorough) digits and "
        "every position of the point, random literals to 17+ digits with leading/trailing zeros: token bits against the "
        "model and against Python's correctly rounded float(); (iii) programs that print a literal or an arithmetic "
        "result, convert with _স্ট্রিং / _সংখ্যা and compare: output against the model and against repr-based shortest digits. "
        "Non-trivial: the literal has a fractional part, a leading zero, a sign or more than 15 digits."
        ' Shared name-collision family (props/collisions.py): 24 scenarios in which one name is bound more than once, x 2 layouts.')
ASSUMPTIONS = ["Rust's f64 Display/FromStr contracts (shortest round-trip plain decimal; correctly rounded) are validated by (i), not proved",
               "hardware IEEE-754 arithmetic is the same for Lean's Float and Rust's f64"]
default_compare = C.compare_exact


def bits(x):
    return struct.unpack(">Q", struct.pack(">d", x))[0]


def from_bits(b):
    return struct.unpack(">d", struct.pack(">Q", b))[0]


def plain(x):
    """shortest round-trip plain decimal of a finite float (what Rust's Display prints)"""
    if x == 0:
        return "-0" if bits(x) >> 63 else "0"
    d = Decimal(repr(x))
    # Python's repr breaks an exact tie between two shortest candidates towards the even digit; Rust's Display (Grisu /
    # Dragon shortest mode) takes the candidate of larger magnitude.  A tie: the exact binary value lies exactly half a
    # unit of the last printed digit away from the printed decimal, and the other neighbour also reads back as x.
    exact = Decimal(x)
    ulp = Decimal(1).scaleb(d.as_tuple().exponent)
    diff = exact - d
    if abs(diff) * 2 == ulp:
        other = d + ulp if diff > 0 else d - ulp
        if float(other) == x and abs(other) > abs(d) and len(other.as_tuple().digits) == len(d.as_tuple().digits):
            d = other
    t = format(d, "f")
    if "." in t:
        t = t.rstrip("0").rstrip(".")
    return t


def lit_oracle(case, impl, model):
    txt = case.info["ascii"]
    ans = impl[0]
    want = bits(float(txt))
    if not ans.startswith("ok "):
        return [f"literal {txt} rejected: {ans[:80]}"]
    toks = ans.split(" ")[1:]
    nums = [t for t in toks if t.startswith("Num:")]
    if len(nums) != 1:
        return [f"literal {txt}: expected one number token, got {toks[:4]}"]
    got = int(nums[0].split("|")[0][4:], 16)
    if got != want:
        return [f"literal {txt}: token is {from_bits(got)!r}, nearest double is {from_bits(want)!r}"]
    return []


def lit_case(txt):
    src = "নাম ক = " + G.bn_digits(txt) + ";"
    nt = "." in txt or txt.lstrip("-").startswith("0") or txt.startswith("-") or len(txt) > 15
    return C.Case("literal", ["LEX " + C.hx(src)], C.compare_lex, lit_oracle, info={"ascii": txt, "src": src}, nontrivial=nt)


def print_oracle(case, impl, model):
    a = C.RunAns(impl[0])
    want = case.info.get("want")
    if want is None:
        return []
    if a.kind != "ok":
        return [f"program ended with {a.status[:3]}"]
    if a.out != want:
        return [f"printed {a.out!r}, expected {want!r}"]
    return []


def run(src, **kw):
    return "RUN " + C.hx(src) + "".join(f" {k}={v}" for k, v in kw.items())


def cases(rng, tier, stats):
    out = []
    # (i) Ext validation
    edge = [0, 1 << 63, 1, 2, 0x000FFFFFFFFFFFFF, 0x0010000000000000, 0x7FEFFFFFFFFFFFFF, 0x3FF0000000000000,
            0x3FB999999999999A, 0x4340000000000000, 0x4340000000000001, 0x433FFFFFFFFFFFFF, bits(5e-324), bits(2.28),
            bits(1.7976931348623157e308), bits(0.1 + 0.2), bits(1e21), bits(1e22), bits(123456789012345680.0), bits(1e-7),
            0x7FF0000000000000, 0xFFF0000000000000, 0x7FF8000000000000]
    nrand = 40000 if tier == "thorough" else 3000
    pats = list(edge)
    for e in range(0, 2047, 1 if tier == "thorough" else 13):
        for fr in (0, 1, (1 << 52) - 1):
            pats.append((e << 52) | fr)
    for _ in range(nrand):
        pats.append(rng.next() & 0xFFFFFFFFFFFFFFFF)
    for _ in range(nrand // 2):
        a = rng.range(-5000, 5000) / rng.choice([1, 2, 4, 5, 8, 10, 100, 1000, 3, 7])
        pats.append(bits(a))
    lines = [f"NUMFMT {p:016x}" for p in pats if not (((p >> 52) & 2047) == 2047 and p & ((1 << 52) - 1))]
    texts = ["1", "-1", "0.1", "1.", ".5", "1e5", "1E-3", "+3", "1e400", "-1e400", "1e-400", "inf", "-inf", "nan", "NaN",
             "Infinity", "infinit", "", ".", "-", "e5", "1e", "1e+", "1_0", "0x10", " 1", "1 ", "১", "1..2", "1.2.3",
             "00012.5000", "9007199254740993", "0.30000000000000004", "4.9e-324", "2.4703282292062327e-324",
             "179769313486231580793728971405303415079934132710037826936173778980444968292764750946649017977587207096330286416692887910946555547851940402630657488671505820681908902000708383676273854845817711531764475730270069855571366959622842914819860834936475292719074168444365510704342711559699508093042880177904174497791.999"]
    for _ in range(nrand // 2):
        L = rng.range(1, 22)
        t = "".join(rng.choice("0123456789") for _ in range(L))
        if rng.chance(0.6):
            k = rng.below(L + 1)
            t = t[:k] + "." + t[k:]
        if rng.chance(0.2):
            t = "-" + t
        if rng.chance(0.2):
            t += "e" + str(rng.range(-330, 310))
        texts.append(t)
    lines += ["NUMPARSE " + C.hx(t) for t in texts]
    for _ in range(nrand // 2):
        a, b = rng.choice(pats), rng.choice(pats)
        lines.append(f"FMOD {a:016x} {b:016x}")
    for i in range(0, len(lines), 500):
        out.append(C.Case("ext-validation", lines[i:i + 500], C.compare_exact, info={"requests": len(lines[i:i + 500])}))
    stats["ext_requests"] = len(lines)
    # (ii) literals
    nd = 4 if tier == "thorough" else 3
    n_ex = 0
    for L in range(1, nd + 1):
        for v in range(10 ** L):
            d = str(v).zfill(L)
            for k in range(1, L + 1):
                t = d[:k] + ("." + d[k:] if k < L else "")
                out.append(lit_case(t)); n_ex += 1
            out.append(lit_case(d + "."))
    stats["exhaustive_literals"] = n_ex
    stats["exhaustive"] = True
    stats["exhaustive_space"] = f"every literal of <= {nd} digits with every position of the point"
    for t in ["1.05", "0.0000001", "2.28", "12345678901234567890", "0.1", "0.30000000000000004", "9007199254740993",
              "-0", "-0.0", "-2.5", "100000000000000000000000", "0.000000000000000000000001", "123.456000", "007.5"]:
        out.append(lit_case(t))
    for _ in range(nrand):
        L = rng.range(1, 19)
        t = "".join(rng.choice("0123456789") for _ in range(L))
        if rng.chance(0.7):
            k = rng.range(1, L)
            t = t[:k] + "." + t[k:]
        if rng.chance(0.15):
            t = "-" + t
        out.append(lit_case(t))
    # (iii) programs
    nprog = 4000 if tier == "thorough" else 400
    for i in range(nprog):
        k = rng.below(5)
        if k == 0:
            x = from_bits(rng.choice(pats))
        elif k == 1:
            x = rng.range(-100000, 100000) / rng.choice([1, 3, 7, 10, 100, 1000, 64])
        elif k == 2:
            x = float(rng.range(1, 9)) * 10.0 ** rng.range(-20, 20)
        elif k == 3:
            x = rng.choice([0.1 + 0.2, 1 / 3, 2 / 3, 1e21, 1e-7, 123456789.125, 5e-324, 1.7976931348623157e308, -0.0, 2.0 ** 53 + 2])
        else:
            x = float(rng.range(-1000, 1000))
        if x != x or x in (float("inf"), float("-inf")):
            continue
        lit = plain(abs(x))
        neg = bits(x) >> 63
        e = G.bn_digits(lit)
        src_lit = ("-" + e) if neg else e
        want = G.bn_digits(plain(x))
        prog = (f"নাম ক = {src_lit};\nদেখাও ক;\nদেখাও _স্ট্রিং(ক);\nদেখাও _সংখ্যা(_স্ট্রিং(ক)) == ক;\n"
                f"দেখাও _সংখ্যা(\"{want}\") == ক;\n")
        exp = f"{want}\n{want}\nসত্য\nসত্য\n"
        out.append(C.Case("print-roundtrip", [run(prog)], lambda m, i: C.compare_run(m, i, line=True), print_oracle,
                          info={"src": prog, "want": exp, "value": repr(x)}))
    # many numbers printed by ONE run (printing has no memory): sequences of 4..10 numbers drawn from pools that collide under any
    # lossy key — whole numbers at and beyond 2^53 and 2^63 of both signs, minus zero before and after zero, numbers equal up to
    # their fraction, factorials — each printed alone, through `_স্ট্রিং`, and inside one list; the expected text is per number
    pools = [[2.0 ** 63, 2.0 ** 63 + 2048, 2.0 ** 64, 1e19, 1e20, 5e20, 51090942171709440000.0, 1.1240007277776077e21, 2.585201673888498e22],
             [-(2.0 ** 63), -(2.0 ** 63) - 2048, -1e19, -7e20, -8e20, -(2.0 ** 70)],
             [-0.0, 0.0, -0.0, 0.0, 1.0, -1.0],
             [0.0, -0.0, 0.5, -0.5, 0.25],
             [2.0 ** 53, 2.0 ** 53 + 2, 2.0 ** 53 - 1, 9007199254740993.0, 1e16, 12345678901234567.0],
             [3.0, 3.5, 3.25, 3.0, 4.0, 3.75], [1e21, 1e22, 1e21, 1e300, 1e301, 1e300], [255.0, 256.0, 65535.0, 65536.0, 4294967295.0, 4294967296.0, 4294967297.0]]
    nm = 0
    for pool in pools:
        for rep in range(6 if tier != "thorough" else 40):
            k = 4 + (rep * 3 + len(pool)) % 7
            seq = [pool[(rep * 5 + j * (rep + 1)) % len(pool)] for j in range(k)]
            def lit(x):
                t = G.bn_digits(plain(abs(x)))
                return ("(-" + t + ")") if (bits(x) >> 63) else t
            prog = ""
            exp = ""
            for x in seq:
                w = G.bn_digits(plain(x))
                prog += f"দেখাও {lit(x)};\n_দেখাও _স্ট্রিং({lit(x)});\nদেখাও \"\";\n"
                exp += f"{w}\n{w}\n"
            prog += "দেখাও [" + ", ".join(lit(x) for x in seq) + "];\n"
            exp += "[" + ", ".join(G.bn_digits(plain(x)) for x in seq) + "]\n"
            out.append(C.Case("many-numbers-one-run", [run(prog)], lambda m, i: C.compare_run(m, i, line=True), print_oracle,
                              info={"src": prog[:300], "want": exp, "values": [repr(x) for x in seq]}))
            nm += 1
    stats["many_numbers_one_run"] = nm
    for bad in ["abc", "১২ক", "", "১.২.৩", "nan", "inf", "-inf", "infinity", "১e৯৯৯", "--১", "১ ২"]:
        prog = f'দেখাও "আগে";\nদেখাও _সংখ্যা("{bad}");\nদেখাও "পরে";\n'
        def orc(case, impl, model):
            a = C.RunAns(impl[0])
            if a.kind != "err" or a.out != "আগে\n":
                return [f"_সংখ্যা({case.info['bad']!r}) did not stop with an error after the first line: {a.status[:3]} {a.out!r}"]
            return []
        out.append(C.Case("to-num-rejects", [run(prog)], lambda m, i: C.compare_run(m, i, line=True), orc, info={"src": prog, "bad": bad}))
    # arithmetic results printed
    for i in range(nprog // 2):
        a = rng.range(-999, 999) / rng.choice([1, 2, 10, 100, 3])
        b = rng.range(1, 999) / rng.choice([1, 2, 10, 100, 7])
        op = rng.choice(["+", "-", "*", "/", "%"])
        pa, pb = G.bn_digits(plain(abs(a))), G.bn_digits(plain(b))
        sa = f"(-{pa})" if a < 0 or bits(a) >> 63 else pa
        prog = f"দেখাও {sa} {op} {pb};\n"
        import math
        v = {"+": a + b, "-": a - b, "*": a * b, "/": a / b, "%": math.fmod(a, b)}[op]
        out.append(C.Case("arith-print", [run(prog)], lambda m, i: C.compare_run(m, i, line=True), print_oracle,
                          info={"src": prog, "want": G.bn_digits(plain(v)) + "\n"}))
    stats["programs"] = nprog
    # the same line number in two files: a module and its importer print different number literals (and computed numbers) from loops
    # whose statements sit on the same line numbers of their files — what a print statement writes depends on its operand only
    from props.base import run_req as _rr, cmp_run as _cr
    nsl = 0
    pairs = [("\u09e6.\u09eb", "\u09e8.\u09e8\u09ee"), ("\u09e7\u09e6\u09e6", "\u09e7\u09e6\u09e6.\u09eb"), ("-\u09e6", "\u09e6"), ("\u09ef\u09e6\u09e6\u09ed\u09e7\u09ef\u09ef\u09e8\u09eb\u09ea\u09ed\u09ea\u09e6\u09ef\u09ef\u09e8", "\u09ef\u09e6\u09e6\u09ed\u09e7\u09ef\u09ef\u09e8\u09eb\u09ea\u09ed\u09ea\u09e6\u09ef\u09ef\u09e9")]
    show, name, loop, again, brk, iff, imp = "\u09a6\u09c7\u0996\u09be\u0993", "\u09a8\u09be\u09ae", "\u09b2\u09c1\u09aa", "\u0986\u09ac\u09be\u09b0", "\u09a5\u09be\u09ae\u09be\u0993", "\u09af\u09a6\u09bf", "\u09ae\u09a1\u09bf\u0989\u09b2"
    def unit(v, lit, first=""):
        return (first + f"{name} {v} = \u09e6;\n{loop} {{\n {show} {lit};\n _{show} {lit}; {show} \"\";\n {show} _\u09b8\u09cd\u099f\u09cd\u09b0\u09bf\u0982({lit});\n"
                f" {v} = {v} + \u09e7;\n {iff} {v} >= \u09e8 {{ {brk}; }}\n}} {again};\n")
    for a, b in pairs:
        for order in (0, 1):
            la, lb = (a, b) if order == 0 else (b, a)
            mod = unit("\u0997", la)
            main = unit("\u0995", lb, first=f'{imp} \u09ae = "m.pakhi"; ')
            lines = ["RESET", "FILE " + C.hx("@ROOT@/m.pakhi") + " " + C.hx(mod), _rr(main), _rr(main, rel=1)]
            out.append(C.Case("same-line-two-files", lines, _cr(line=True), None, info={"module": mod, "main": main}))
            nsl += 1
    stats["same_line_two_files"] = nsl
    # one name in two roles (props/collisions.py): shadowed functions, parameters named like globals / built-ins / their own function,
    # bare conditions, indexed and plain writes, re-declarations — every use of a name resolves to its innermost binding
    from props import collisions
    nc_ = collisions.family()
    out += nc_
    stats["name_collision_programs"] = len(nc_)
    return out


def fix_root(cases_, root):
    for c in cases_:
        c.lines = [l if not l.startswith("FILE ") else "FILE " + C.hx(C.unhx(l.split(" ")[1]).replace("@ROOT@", root)) + " " + l.split(" ")[2] for l in c.lines]
