"""C10 — the tokenizer is total and loses nothing."""
import itertools
import common as C
import gen as G
import proggen

RULE = ("LEX requests: every string over a 24-symbol representative alphabet up to length 3 (quick) / 4 (thorough), "
        "random strings over ASCII+Bangla to length 200, generated programs truncated at every position, and the "
        "character-class table over the whole alphabet. Tokens (kind, lexeme, line; numbers by bit pattern) are compared "
        "with the model; independently the implementation's token list is checked against the covering/line specification. "
        "A case is non-trivial when the source contains at least one non-blank character; distinct by request text."
        ' Keyword-neighbourhood (13 keywords x 12 invisible / combining / look-alike characters x 5 positions x 5 contexts) and number-neighbourhood (foreign digits, numeric signs, letters glued to Bangla digits) families.')
ASSUMPTIONS = ["alphabet = ASCII ∪ U+0980–U+09FF ∪ {U+200C,U+200D}; characters outside it are not generated",
               "native memory limits are not modelled"]
ALPHA24 = ["ক", "া", "১", "০", "-", ">", "=", "!", "<", ".", "#", "\\", '"', " ", "\n", "\t", "\r", "_", "/", "(", "]", "$", "a", ";"]
default_compare = C.compare_lex


def spec_oracle(case, impl_answers, model_answers):
    """the covering and line-number specification, evaluated on the implementation's own tokens"""
    src = case.info.get("src")
    ans = impl_answers[0]
    if src is None or not ans.startswith("ok"):
        if ans.startswith("panic") or ans.startswith("abort"):
            return [f"tokenizer did not return a token list or a syntax error: {ans[:120]}"]
        if ans.startswith("err") and not ans.startswith("err syntax"):
            return [f"tokenizer error is not a syntax error: {ans[:80]}"]
        return []
    toks = [t.split("|") for t in ans.split(" ")[1:]]
    problems = []
    if not toks or toks[-1][0] != "EOT" or any(t[0] == "EOT" for t in toks[:-1]):
        return ["token list does not end in exactly one end marker"]
    pos = 0
    line = 1
    for kind, payload, ln in toks[:-1]:
        lex = C.unhx(payload)
        while pos < len(src) and src[pos] in " \t\r\n":
            if src[pos] == "\n":
                line += 1
            pos += 1
        if kind == "String":
            if not src.startswith('"' + lex, pos):
                return [f"string token {lex!r} not found at position {pos}"]
            text = '"' + lex + ('"' if src.startswith('"' + lex + '"', pos) else "")
        else:
            if not src.startswith(lex, pos) or lex == "":
                return [f"token {kind} {lex!r} does not continue the source at position {pos}"]
            text = lex
        if int(ln) != line:
            return [f"token {kind} {lex!r} carries line {ln}, is written on line {line}"]
        pos += len(text)
        line += text.count("\n")
    rest = src[pos:]
    if rest.strip(" \t\r\n") != "":
        problems.append(f"characters {rest!r} at the end are not covered by any token")
    return problems


def lex_case(name, src):
    return C.Case(name, ["LEX " + C.hx(src)], C.compare_lex, spec_oracle, info={"src": src},
                  nontrivial=src.strip() != "")


def number_neighbourhood_sources():
    """number literals with characters of other numeric scripts / numeric signs before, inside and after the Bangla digits
    (ASCII digit, Bangla currency numerators U+09F4..U+09F9, a second point, a sign inside, a letter glued on): the
    tokenizer answers with tokens or a syntax error for every one of them"""
    B = "\u09e7\u09e8"        # ১২
    odd = ["5", "0", "9", "\u09f4", "\u09f9", "\u09f7", ".", "..", "-", "_", "\u0995", "a", "\u09bc", "\u200d", "\u09e6"]
    srcs = []
    for o in odd:
        for w in (B + o, o + B, B[0] + o + B[1], B + "." + o, B + o + ".", B + "." + B[0] + o, "-" + B + o, "-" + o + B, B + o + o):
            for ctx in ("{}", "\u09a6\u09c7\u0996\u09be\u0993 {};", "x = {} + \u09e7;", "[{}, {}]", "x[{}]", "({})-{}"):
                srcs.append(ctx.replace("{}", w))
    return srcs


def cases(rng, tier, stats):
    out = []
    maxlen = 4 if tier == "thorough" else 3
    n_ex = 0
    for n in range(0, maxlen + 1):
        for tup in itertools.product(ALPHA24, repeat=n):
            out.append(lex_case(f"exhaustive-{n}", "".join(tup)))
            n_ex += 1
    stats["exhaustive_strings"] = n_ex
    stats["exhaustive"] = True
    stats["exhaustive_space"] = f"all strings of length <= {maxlen} over {len(ALPHA24)} symbols"
    # character classes over the whole alphabet
    alpha = [chr(c) for c in range(0, 128)] + [chr(c) for c in range(0x980, 0xA00)] + ["\u200c", "\u200d"]
    out.append(C.Case("charclass", ["CHARCLASS " + C.hx("".join(alpha))], C.compare_exact, info={"chars": len(alpha)}))
    # keyword neighbourhoods: every keyword decorated with characters that do not show (zero-width joiner / non-joiner, a
    # nukta or another combining sign, no-break space, BOM, soft hyphen) before, inside and after it, or written with a
    # look-alike: such a word is an identifier with exactly the written lexeme, never the keyword
    ZW = ["\u200d", "\u200c", "\u09bc", "\u09cd", "\u00a0", "\ufeff", "\u00ad", "\u0981", "_", "-", "\u09e7", "1"]
    nk = 0
    for kw in sorted(G.KEYWORDS):
        for z in ZW:
            forms = {z + kw, kw + z, kw[:1] + z + kw[1:], kw[:-1] + z + kw[-1:], kw + z + z}
            for w in sorted(forms):
                for ctx in ("{} x = \u09e7;", "{} (x) {{ }}", "{};", "x {} y", "\n{}\n\"s\" {}"):
                    out.append(lex_case("keyword-neighbourhood", ctx.format(w, w) if ctx.count("{}") == 2 else ctx.format(w)))
                    nk += 1
    stats["keyword_neighbourhood_cases"] = nk
    nn = number_neighbourhood_sources()
    for src in nn:
        out.append(lex_case("number-neighbourhood", src))
    stats["number_neighbourhood_cases"] = len(nn)
    # random strings
    pool = ALPHA24 + list("নামযদিঅথবালুপফাংফেরতথামাওআবারদেখাওসত্যমিথ্যামডিউল") + list("০১২৩৪৫৬৭৮৯") + list("+*%&|@,{}[)^~?:'`") + ["\x0c", "\x00", "\x7f", "৴", "‌"]
    nrand = 20000 if tier == "thorough" else 2000
    for i in range(nrand):
        L = rng.range(1, 200 if rng.chance(0.2) else 30)
        src = "".join(rng.choice(pool) for _ in range(L))
        out.append(lex_case("random", src))
    # line accounting across multi-line tokens: string and comment contents with newlines at the start, in the middle and
    # directly before the closing delimiter, followed by tokens whose line numbers are compared
    contents = ["\n", "ক\n", "\nক", "ক\nখ", "ক\nখ\n", "\n\n", "ক\r\n", "\r\nক\r\n", "ক\n\nখ\n", " \n ", "\n\n\nক",
                # a backslash next to a line break or to the escaped delimiter: the escape must not swallow the newline
                "ক\\\nখ", "\\\n", "lib\\math\\\nখ\n", "ক\\\r\nখ", "\\\\\nক", "ক\\\n\\\nখ", "ক \\\n"]
    tails = [" x", ";\nx", "\nx;", " + ১ ;\nদেখাও y ;", ";"]
    nml = 0
    for cnt in contents:
        for tl in tails:
            for pre in ("", "ক = ", "\n\nদেখাও "):
                out.append(lex_case("multiline-string", pre + '"' + cnt + '"' + tl))
                out.append(lex_case("multiline-comment", pre + "#" + cnt.replace("#", "") + "#" + tl))
                out.append(lex_case("multiline-comment", pre + "# \\# " + cnt.replace("#", "") + "\\#\n#" + tl))
                nml += 3
    stats["multiline_token_cases"] = nml
    # keywords glued / separated, valid programs truncated everywhere
    nprog = 60 if tier == "thorough" else 12
    ntr = 0
    for i in range(nprog):
        pg = proggen.ProgGen(rng.fork(f"p{i}"))
        prog = pg.program(6)
        if rng.chance(0.5):
            prog.insert(rng.below(len(prog) + 1), ("comment", " মন্তব্য \\# এক\nদুই "))
        if rng.chance(0.5):
            prog.append(("decl", "স", G.s("লাইন এক\nলাইন দুই")))
            prog.append(("print", G.var("স")))
        src = G.source(prog, "wild" if rng.chance(0.5) else "lines", rng)
        out.append(lex_case("program", src))
        step = 1 if len(src) < 400 else len(src) // 300 + 1
        for cut in range(0, len(src), step):
            out.append(lex_case("truncated", src[:cut]))
            ntr += 1
    stats["truncations"] = ntr
    stats["random_strings"] = nrand
    return out
