"""C11 — layout does not matter: optional blanks, newlines and comments are inert."""
import common as C
import gen as G
import proggen
from props.base import run_req, cmp_run

RULE = ("every generated program (random structured programs and expression statements) is rendered in five layouts of "
        "the same token sequence: one statement per line, a single line, minimal (no blank wherever two tokens cannot "
        "fuse), two random mixes of space/tab/CR/CRLF/newline, and with single- and multi-line comment blocks (with "
        "escaped #) inserted at statement boundaries. Metamorphic oracle on the implementation: all layouts print the "
        "same text and end the same way (error class; lines may move); each layout is also compared with the Lean model. "
        "Includes ৫-১, ক[০]-১, (ক)-১ and the other operator/bracket adjacencies. Non-trivial: the minimal layout differs "
        "from the one-line layout in at least 3 positions."
        ' Name-collision scenarios (props/collisions.py) in all six layouts.')
ASSUMPTIONS = ["comments are inserted only where a statement may start (that is where the language allows them)"]
default_compare = lambda m, i: C.compare_run(m, i)
COMMENTS = [" মন্তব্য ", "", " দুই\nলাইন ", " escaped \\# hash ", "\nশুরুতে নতুন লাইন", " ; } { থামাও; \" ", "দেখাও ১;"]


def with_comments(toks, r):
    out = []
    for t in toks:
        out.append(t)
        if t[1] == "nl" and r.chance(0.3):
            out.append(("#" + r.choice(COMMENTS) + "#", "comment"))
            out.append(G.NL)
    if r.chance(0.5):
        out = [("#" + r.choice(COMMENTS) + "#", "comment"), G.NL] + out
    return out


def same_oracle(case, impl, model):
    answers = [C.RunAns(x) for x in impl]
    base = answers[0]
    probs = []
    for k, a in enumerate(answers[1:], 1):
        if a.kind in ("abort", "panic"):
            probs.append(f"layout {case.info['layouts'][k]}: {a.raw[:120]}")
        elif a.out != base.out or a.kind != base.kind or (a.kind == "err" and a.err_class() != base.err_class()):
            probs.append(f"layout {case.info['layouts'][k]} prints {a.out!r} / {' '.join(a.status[:2])}, layout {case.info['layouts'][0]} prints {base.out!r} / {' '.join(base.status[:2])}")
    return probs


def layouts_case(name, toks, r):
    srcs = [("lines", G.render(toks, "lines")), ("oneline", G.render(toks, "oneline")), ("minimal", G.render(toks, "minimal")),
            ("wild-1", G.render(toks, "wild", r)), ("wild-2", G.render(toks, "wild", r)),
            ("comments", G.render(with_comments(toks, r), "wild" if r.chance(0.5) else "lines", r))]
    diff = sum(1 for a, b in zip(srcs[1][1].replace(" ", "\0"), srcs[2][1])) if False else len(srcs[1][1]) - len(srcs[2][1])
    return C.Case(name, [run_req(s) for _, s in srcs], cmp_run(), same_oracle,
                  info={"layouts": [n for n, _ in srcs], "sources": [s for _, s in srcs][:3]}, nontrivial=diff >= 3)


def cases(rng, tier, stats):
    out = []
    # the adjacencies the property names, each next to a literal, a name and a bracket
    ops = ["+", "-", "*", "/", "%", "<", "<=", ">", ">=", "==", "!="]
    n = 0
    for op in ops:
        for l in [G.num(5), G.idx(G.var("ক"), G.num(0)), G.grp(G.var("খ")), G.call("ফ", G.num(2)), G.s("ক") if op in ("==", "!=", "+") else G.num(8)]:
            for rr in [G.num(1), G.grp(G.num(2)), G.un("-", G.num(3)) if op != "-" else G.num(4)]:
                prog = [("decl", "ক", G.lst(G.num(7), G.num(9))), ("decl", "খ", G.num(6)), ("func", "ফ", ["x"], [("return", G.bin_("*", G.var("x"), G.num(3)))]),
                        ("print", G.bin_(op, l, rr)), ("print", G.lst(G.num(1), G.num(-1), G.bin_("-", G.num(5), G.num(1))))]
                out.append(layouts_case("adjacency", G.toks_stmts(prog), rng.fork(f"a{n}")))
                n += 1
    stats["adjacency_cases"] = n
    m = 8000 if tier == "thorough" else 350
    for i in range(m):
        r = rng.fork(f"l{i}")
        pg = proggen.ProgGen(r, max_depth=3)
        prog = pg.program(r.range(3, 8))
        if r.chance(0.3):
            prog.append(("decl", "রে", G.rec((G.s("k"), G.num(1)), (G.s("চ"), G.lst(G.num(2))))))
            prog.append(("print", G.idx(G.var("রে"), G.s("চ"))))
        if r.chance(0.15):
            prog.append(("print", G.var("অঘোষিত")))
        out.append(layouts_case("program-layouts", G.toks_stmts(prog), r))
    stats["programs"] = m
    stats["layouts_per_program"] = 6
    # one name in two roles (props/collisions.py) in every layout: statements that resolve the same name differently share a line in
    # the one-line layouts and are spread over lines in the others
    from props import collisions
    ncl = 0
    for sname, prog in collisions.scenarios().items():
        out.append(layouts_case("name-collision-layouts", G.toks_stmts(prog), rng.fork("nc" + sname)))
        ncl += 1
    stats["name_collision_layouts"] = ncl
    # layouts and comments inside imported modules (the first token of a module file may be a comment)
    mm = 1500 if tier == "thorough" else 80
    for i in range(mm):
        r = rng.fork(f"mod{i}")
        pg = proggen.ProgGen(r, max_depth=2)
        mod_toks = G.toks_stmts(pg.program(r.range(2, 5)))
        main_prog = [("print", G.s("আগে")), ("import", "ম", "lib/m.pakhi"), ("print", G.s("পরে"))]
        main_src = G.source(main_prog, "lines")
        variants = [("plain", G.render(mod_toks, "lines")), ("minimal", G.render(mod_toks, "minimal")),
                    ("header-comment", "# শিরোনাম \\# মন্তব্য\nদুই লাইন #\n" + G.render(mod_toks, "lines")),
                    ("comments", G.render(with_comments(mod_toks, r), "lines")),
                    ("comments-wild", G.render(with_comments(mod_toks, r), "wild", r)),
                    ("trailing-comment", G.render(mod_toks, "lines") + "# শেষে #")]
        lines = []
        names = []
        for nme, txt in variants:
            lines += ["RESET", "FILE " + C.hx("@ROOT@/lib/m.pakhi") + " " + C.hx(txt), run_req(main_src)]
            names.append(nme)
        def orc(case, impl, model, names=names):
            runs = [C.RunAns(impl[3 * k + 2]) for k in range(len(names))]
            probs = []
            for k, a in enumerate(runs[1:], 1):
                if a.out != runs[0].out or a.kind != runs[0].kind or (a.kind == "err" and a.err_class() != runs[0].err_class()):
                    probs.append(f"module layout {names[k]}: prints {a.out!r} / {' '.join(a.status[:2])}, plain layout prints {runs[0].out!r} / {' '.join(runs[0].status[:2])}")
            return probs[:2]
        out.append(C.Case("module-layouts", lines, cmp_run(), orc, info={"layouts": names, "module": variants[3][1][:300]}))
    stats["module_layout_programs"] = mm
    # large files (scale): a module file of 9..40 KB of Bangla text in strings, names and comments, in several paddings (a few
    # blanks more or less at the front shift every later character by a few bytes): layout is inert in long files too,
    # whatever buffer the reader uses
    nbig = 0
    for size in ((160, 700) if tier != "thorough" else (120, 160, 330, 700, 1500)):
        stmts = []
        for i in range(size):
            stmts.append(("decl", "নাম" + G.bn_digits(str(i)), G.s("বাংলা লেখা " + G.bn_digits(str(i)) + " শেষ")))
            if i % 7 == 0:
                stmts.append(("print", G.bin_("+", G.var("নাম" + G.bn_digits(str(i))), G.s("।"))))
        mod_toks = G.toks_stmts(stmts)
        base = G.render(mod_toks, "lines")
        variants = [("plain", base), ("one-blank", " " + base), ("two-blanks", "  " + base), ("newline", "\n" + base),
                    ("comment", "# ক #\n" + base), ("tabs", "\t\t\t" + base)]
        main_src = G.source([("print", G.s("আগে")), ("import", "ম", "lib/m.pakhi"), ("print", G.var("ম/নাম" + G.bn_digits(str(size - 1)))), ("print", G.s("পরে"))], "lines")
        lines, names = [], []
        for nme, txt in variants:
            lines += ["RESET", "FILE " + C.hx("@ROOT@/lib/m.pakhi") + " " + C.hx(txt), run_req(main_src)]
            names.append(nme)
        def orc2(case, impl, model, names=names):
            runs = [C.RunAns(impl[3 * k + 2]) for k in range(len(names))]
            probs = []
            for k, a in enumerate(runs[1:], 1):
                if a.out != runs[0].out or a.kind != runs[0].kind:
                    probs.append(f"large module, layout {names[k]}: output differs from the plain layout ({len(a.out or '')} vs {len(runs[0].out or '')} characters, {' '.join(a.status[:2])})")
            return probs[:2]
        out.append(C.Case("large-module-layouts", lines, cmp_run(), orc2, info={"layouts": names, "bytes": len(base.encode("utf-8"))}))
        nbig += 1
    stats["large_module_files"] = nbig
    return out


def fix_root(cases_, root):
    for c in cases_:
        c.lines = [l if not l.startswith("FILE ") else "FILE " + C.hx(C.unhx(l.split(" ")[1]).replace("@ROOT@", root)) + " " + l.split(" ")[2] for l in c.lines]
