"""C12 — the parser is total: any token stream yields an AST or an error value."""
import itertools
import common as C
import gen as G
import proggen

RULE = ("(a) PARSETOKS: every token sequence of length <= 2 (quick) / 3 (thorough) over the 43-kind token alphabet followed by the "
        "end marker, plus 20000 (quick) / 300000 (thorough) random sequences of length 4..12; (b) PARSE: generated valid programs "
        "(every documented statement and expression form, nested), each truncated at every token position and with single "
        "and double token deletions, duplications, swaps and insertions. The implementation must answer with a statement "
        "list or an error value (never a panic, abort or hang); valid programs must be accepted; the answer (AST on "
        "success, error class otherwise) is compared with the Lean model. Non-trivial: the sequence is not accepted."
        ' Number-neighbourhood sources of C10 as PARSE requests; import graphs with the root file on disk.'
        ' Same-alias import graphs and root cycles entered by a later import.')
ASSUMPTIONS = ["token lists end with the end-of-tokens marker, as every tokenizer output does",
               "native stack depth is not modelled (KNOWN-FINDING C12-native-stack is probed on every run)"]
CODES = "nsiIELVF+-*/%@;m#,(){}[]=<>qxlg&|!tfBCRPMp"
default_compare = C.compare_status_class


def total_oracle(case, impl, model):
    probs = []
    for j, a in enumerate(impl):
        if case.lines[j].startswith(C.SETUP_PREFIXES):
            continue
        if not (a.startswith("ok") or a.startswith("err ") or a.startswith("lex-err")):
            probs.append(f"request {j}: parser did not return a statement list or an error value: {a[:120]}")
        elif case.info.get("valid") and j == 0 and not a.startswith("ok"):
            probs.append(f"a program built from documented forms was rejected: {a[:120]}")
    return probs


def mutate(toks, r):
    toks = list(toks)
    for _ in range(r.range(1, 2)):
        if not toks:
            break
        k = r.below(5)
        i = r.below(len(toks))
        if k == 0:
            del toks[i]
        elif k == 1:
            toks.insert(i, toks[i])
        elif k == 2 and len(toks) > 1:
            j = r.below(len(toks))
            toks[i], toks[j] = toks[j], toks[i]
        elif k == 3:
            toks.insert(i, r.choice([("(", "op"), (")", "op"), ("{", "op"), ("}", "op"), ("[", "op"), ("]", "op"), (";", "op"), (",", "op"), ("=", "op"), ("->", "op"), ("@", "op"),
                                     ("অথবা", "word"), ("যদি", "word"), ("লুপ", "word"), ("আবার", "word"), ("থামাও", "word"), ("ফাং", "word"), ("ফেরত", "word"), ("নাম", "word"),
                                     ("মডিউল", "word"), ("দেখাও", "word"), ("৫", "num"), ('"x"', "str"), ("ক", "word"), ("+", "op"), ("!", "op"), ("-", "op")]))
        else:
            toks = toks[:i]
    return toks


def cases(rng, tier, stats):
    out = []
    L = 3 if tier == "thorough" else 2
    n = 0
    batch = []
    for ln in range(0, L + 1):
        for t in itertools.product(CODES, repeat=ln):
            batch.append("PARSETOKS " + "".join(t) + "$")
            n += 1
            if len(batch) == 400:
                out.append(C.Case("tokens-exhaustive", batch, C.compare_status_class, total_oracle, info={"first": batch[0]})); batch = []
    stats["exhaustive_sequences"] = n
    stats["exhaustive"] = True
    stats["exhaustive_space"] = f"all token sequences of length <= {L} over {len(CODES)} kinds, each followed by the end marker"
    m = 300000 if tier == "thorough" else 20000
    for i in range(m):
        ln = rng.range(4, 12)
        batch.append("PARSETOKS " + "".join(rng.choice(CODES) for _ in range(ln)) + "$")
        if len(batch) == 400:
            out.append(C.Case("tokens-random", batch, C.compare_status_class, total_oracle, info={"first": batch[0]})); batch = []
    if batch:
        out.append(C.Case("tokens-random", batch, C.compare_status_class, total_oracle, info={"first": batch[0]}))
    stats["random_sequences"] = m
    # documented forms, nested
    np_ = 150 if tier == "thorough" else 25
    nm = 0
    for i in range(np_):
        r = rng.fork(f"p{i}")
        pg = proggen.ProgGen(r, max_depth=4)
        prog = pg.program(r.range(4, 9))
        prog.append(("decl", "রে", G.rec((G.s("k"), G.lst(G.num(1), G.rec((G.s("z"), G.b(True))))), (G.s("চ"), G.num(2)))))
        prog.append(("assign", "রে", [G.s("k"), G.num(1), G.s("z")], G.un("!", G.b(False))))
        prog.append(("comment", " মন্তব্য "))
        prog.append(("print", G.idx(G.idx(G.var("রে"), G.s("k")), G.num(0))))
        toks = [t for t in G.toks_stmts(prog) if t[1] != "nl"]
        src = G.render(toks, "oneline")
        out.append(C.Case("valid-program", ["PARSE " + C.hx(src)], C.compare_status_class, total_oracle, info={"valid": True, "src": src[:400]}, nontrivial=False))
        lines = []
        step = max(1, len(toks) // (120 if tier == "thorough" else 40))
        for cut in range(0, len(toks), step):
            lines.append("PARSE " + C.hx(G.render(toks[:cut], "oneline")))
        for k in range(300 if tier == "thorough" else 60):
            lines.append("PARSE " + C.hx(G.render(mutate(toks, r), "oneline")))
        nm += len(lines)
        out.append(C.Case("truncations-and-mutations", lines, C.compare_status_class, total_oracle, info={"src": src[:400]}))
    stats["valid_programs"] = np_
    stats["mutants"] = nm
    # every statement kind holding a deeply nested expression, cut after every token (nested open calls, groups, list
    # and record literals, index chains at the end of input)
    deep = [G.call("যোগ", G.call("দ্বিগুণ", G.num(2), G.lst(G.num(3), G.rec((G.s("k"), G.call("ফ", G.num(1)))))), G.idx(G.idx(G.var("ক"), G.num(0)), G.num(1))),
            G.call("ক", G.call("খ", G.call("গ", G.num(1), G.num(2)), G.num(3)), G.num(4)),
            G.bin_("+", G.grp(G.bin_("*", G.grp(G.un("-", G.call("ফ", G.grp(G.num(2))))), G.num(3))), G.call("ফ", G.lst(G.lst(G.call("গ", G.num(1)))))),
            G.rec((G.s("a"), G.rec((G.s("b"), G.lst(G.call("ফ", G.call("গ", G.s("x"))))))), (G.s("c"), G.idx(G.var("ক"), G.call("ফ", G.num(0))))),
            G.bin_("&", G.bin_("<", G.call("ফ", G.call("ফ", G.num(1))), G.num(2)), G.un("!", G.call("গ", G.call("গ", G.b(True)))))]
    nt = 0
    for e in deep:
        kinds = [[("decl", "ফল", e)], [("assign", "ফল", [], e)], [("print", e)], [("printn", e)], [("expr", G.call("চ", e))],
                 [("assign", "ফল", [G.num(0), G.s("k")], e)], [("if", [(e, [("print", G.num(1))])], None)],
                 [("func", "কাজ", ["x"], [("return", e)])], [("loop", [("decl", "y", e), ("break",)])], [("assign", "ফল", [e], G.num(1))]]
        for prog in kinds:
            toks = [t for t in G.toks_stmts(prog) if t[1] != "nl"]
            lines = ["PARSE " + C.hx(G.render(toks[:cut], "oneline")) for cut in range(0, len(toks) + 1)]
            lines += ["PARSE " + C.hx(G.render(toks[:cut], "minimal")) for cut in range(1, len(toks), 3)]
            nt += len(lines)
            out.append(C.Case("deep-truncations", lines, C.compare_status_class, total_oracle, info={"src": G.render(toks, "oneline")[:300]}))
    stats["deep_truncations"] = nt
    # long flat programs (scale): hundreds of statements each using unary operators, calls, groups, list / record literals
    # and index chains once — acceptance must not depend on how much was parsed before
    for kind in range(4):
        prog = [("func", "জোড়", ["n"], [("return", G.bin_("==", G.bin_("%", G.var("n"), G.num(2)), G.num(0)))]), ("decl", "গণনা", G.num(0)), ("decl", "ত", G.lst(G.num(1), G.lst(G.num(2))))]
        for i in range(260):
            if kind == 0:
                prog.append(("if", [(G.un("!", G.call("জোড়", G.num(i))), [("assign", "গণনা", [], G.bin_("+", G.var("গণনা"), G.num(1)))])], None))
            elif kind == 1:
                prog.append(("assign", "গণনা", [], G.bin_("+", G.un("-", G.var("গণনা")), G.un("-", G.grp(G.num(i))))))
            elif kind == 2:
                prog.append(("print", G.idx(G.idx(G.var("ত"), G.num(1)), G.num(0))))
            else:
                prog.append(("decl", "ট" + G.bn_digits(str(i)), G.lst(G.grp(G.grp(G.num(i))), G.rec((G.s("k"), G.call("জোড়", G.grp(G.num(i))))))))
        toks = [t for t in G.toks_stmts(prog) if t[1] != "nl"]
        src = G.render(toks, "lines" if kind % 2 else "oneline")
        out.append(C.Case("valid-program", ["PARSE " + C.hx(src)], C.compare_status_class, total_oracle, info={"valid": True, "src": src[:200], "statements": len(prog)}, nontrivial=False))
    # hand-written malformed statements, one per syntax-error site of the parser that random mutation reaches rarely
    bad = ['মডিউল = "x.pakhi";', 'মডিউল ক "x.pakhi";', 'মডিউল ক = ;', 'মডিউল ক = ৫;', 'মডিউল ক = "x.pakhi"', 'দেখাও ক[০ ;', 'দেখাও ক[০ ১];', 'ক[০ = ১;', 'ক[০][ = ১;',
           'দেখাও @{"k" -> ১ ;', 'দেখাও @{"k" ১};', 'দেখাও @{"k" -> };', 'দেখাও @ ৫;', 'দেখাও @{"k" -> ১ "j" -> ২ ;', 'দেখাও [১, ২ ;', 'দেখাও (১ + ২ ;', 'দেখাও ফ(১, ;',
           'নাম = ৫;', 'নাম ক ৫;', 'নাম ৫ = ৫;', 'নাম ক = ;', 'ক = ;', 'ক ৫;', 'ফাং ;', 'ফেরত', 'থামাও', 'আবার', 'যদি {', 'যদি সত্য', 'লুপ', '} ;', '@', '-> ৫;', ', ;', '= ৫;',
           'দেখাও', '_দেখাও', 'দেখাও ৫', 'দেখাও ৫ ৬;', 'দেখাও + ;', 'দেখাও ! ;', 'দেখাও - ;', 'দেখাও ১ + ;', 'দেখাও ১ == ;', 'দেখাও ক[];', 'দেখাও ক[][০];']
    lines = ["PARSE " + C.hx(b) for b in bad] + ["PARSE " + C.hx('দেখাও "আগে";\n' + b + '\nদেখাও "পরে";') for b in bad]
    out.append(C.Case("malformed-statements", lines, C.compare_status_class, total_oracle, info={"count": len(lines)}))
    stats["malformed_statements"] = len(lines)
    # number literals with foreign digits / numeric signs glued on (family of C10): statement list or error value, never a panic
    from props.C10 import number_neighbourhood_sources
    nn = number_neighbourhood_sources()
    for k_ in range(0, len(nn), 60):
        out.append(C.Case("number-neighbourhood", ["PARSE " + C.hx(b) for b in nn[k_:k_ + 60]], C.compare_status_class, total_oracle, info={"first": nn[k_]}))
    stats["number_neighbourhood"] = len(nn)
    # the parser loads modules: import graphs with cycles that do NOT pass through the root, long chains into a cycle, diamonds and
    # repeated imports — parsing must end with a statement list or an error value (no stack overflow, no hang); files on disk, oracle
    # of the C15 family (graph predicate)
    from props import C15 as L
    graphs = []
    for k_ in (2, 3, 4):                                   # a chain from the root into a cycle of length k_
        for lead in (1, 2):
            n_ = lead + k_
            edges = [(i, i + 1) for i in range(lead)] + [(lead + i, lead + (i + 1) % k_) for i in range(k_)]
            graphs.append((n_, edges))
            graphs.append((n_, edges + [(0, n_ - 1)]))                      # … plus a shortcut (diamond into the cycle)
    graphs += [(4, [(0, 1), (0, 2), (1, 3), (2, 3)]), (5, [(0, 1), (0, 2), (1, 3), (2, 3), (3, 4), (0, 4)]),
               (4, [(0, 1), (1, 2), (2, 3), (3, 1), (0, 3)]), (5, [(0, 1), (1, 2), (2, 3), (3, 4), (4, 2), (1, 4)])]
    # cycles that do pass through the root, entered by its second / third import
    graphs += [(3, [(0, 1), (0, 2), (2, 0)]), (4, [(0, 1), (0, 2), (0, 3), (3, 0)]), (3, [(0, 1), (0, 2), (1, 2), (2, 1)]), (4, [(0, 1), (0, 2), (2, 3), (3, 0)])]
    ng = 0
    for (n_, edges) in graphs:
        for desc in (False, True):
            out.append(L.graph_case("parse-module-graph", n_, edges, desc)); ng += 1
            out.append(L.graph_case("parse-module-graph", n_, edges, desc, same_alias=True)); ng += 1     # two modules under one alias
    stats["module_graphs"] = ng
    # import statements with degenerate path texts inside an imported module: the loader answers with an error value, never a panic
    from props.base import run_req, cmp_run
    nd = 0
    for bad in ("", ".", "./", "..", "sub/..", "lib/..", "/", "sub/", "sub", ".pakhi", "x.pakhi/", " ", "../"):
        for where in ("b.pakhi", "sub/c.pakhi"):
            lines = ["RESET", "FILE " + C.hx("@ROOT@/" + where) + " " + C.hx('দেখাও "মডিউল";\nমডিউল ভ = "' + bad + '";\n'),
                     "FILE " + C.hx("@ROOT@/sub/d.pakhi") + " " + C.hx('দেখাও "d";\n'),
                     run_req('দেখাও "আগে";\nমডিউল ম = "' + where + '";\nদেখাও "x";\n')]
            out.append(C.Case("loader-degenerate-in-module", lines, cmp_run(), L.err_oracle, info={"bad": bad, "where": where, "run_index": 3}))
            nd += 1
    stats["degenerate_imports_in_modules"] = nd
    return out


def extra_checks(rng, tier, stats, root):
    """KNOWN-FINDING probe: deep nesting overflows the native stack (one request, both tiers)"""
    depth = 3000
    src = "দেখাও " + "(" * depth + "১" + ")" * depth + ";"
    ans = C.run_impl([["PARSE " + C.hx(src)]], root, per_line_timeout=120)[0][0]
    stats["deep_nesting_probe"] = {"depth": depth, "answer": ans[:60]}
    if ans.startswith("abort"):
        return [("impl-vs-oracle", "C12-native-stack", f"an expression nested {depth} parentheses deep overflows the native stack: {ans[:60]}", {"depth": depth})]
    return []


def fix_root(cases_, root):
    for c in cases_:
        c.lines = [l if not l.startswith("FILE ") else "FILE " + C.hx(C.unhx(l.split(" ")[1]).replace("@ROOT@", root)) + " " + l.split(" ")[2] for l in c.lines]
