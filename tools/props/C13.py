"""C13 — runtime faults stop the program with a located Pakhi error, never a panic."""
import os, subprocess
import common as C
import gen as G
from props.base import run_req, cmp_run

RULE = ("fault matrix: 14 fault kinds (operand type mismatch in 4 operator families, undeclared read, undeclared assignment, "
        "non-boolean condition, wrong built-in argument type and count, list index out of range / negative / on an empty "
        "index, missing record key on read and on a write path, indexed write out of range, push/pop at an invalid "
        "position, calling a non-function, printing nil, _এরর(m)) x 10 statement positions (print, declaration, assignment, "
        "expression statement, if condition, else-if condition, argument, index write, operand of ==, directly in a return operand, and after a user-function call that already returned in the same statement: list literal element, right operand of ==) x call depth 0..3 "
        "x main file / imported module, after a random number of preceding prints. Oracle computed by the generator: "
        "output = exactly the preceding prints, status = error, line = the faulting statement's line, file = the file it "
        "is written in, message = m for _এরর. Also compared with the Lean model (class, line, file, message). The command "
        "line tool is run on a sample: exit status 1, diagnostic on stderr, stdout preserved. "
        "Non-trivial: call depth >= 1 or the fault is in a module."
        ' Closing-return-fault family (fault in the operand of the return written after the block: empty / non-empty body x top / nested / module) and multiline-before-fault family (literals and comments spanning lines, ending in a line break, CR, CR LF, before the faulting statement).'
        ' Shared name-collision family (props/collisions.py): 24 scenarios in which one name is bound more than once, x 2 layouts.')
ASSUMPTIONS = ["every statement is written on one line, so 'the line of the statement' is unambiguous"]
default_compare = lambda m, i: C.compare_run(m, i, line=True, file=True)

FAULTS = [
    ("type-add", lambda: G.bin_("+", G.num(1), G.s("ক")), "type"),
    ("type-mul", lambda: G.bin_("*", G.s("ক"), G.num(2)), "type"),
    ("type-cmp", lambda: G.bin_("<", G.b(True), G.num(2)), "type"),
    ("type-and", lambda: G.bin_("&", G.num(1), G.b(True)), "type"),
    ("type-unary", lambda: G.un("-", G.s("x")), "type"),
    ("undeclared", lambda: G.var("অঘোষিত"), "runtime"),
    ("builtin-arg-type", lambda: G.call("_লিস্ট-লেন", G.num(5)), "runtime"),
    ("builtin-arg-count", lambda: G.call("_স্ট্রিং", G.num(1), G.num(2)), "runtime"),
    ("index-out-of-range", lambda: G.idx(G.var("তালিকা"), G.num(7)), "runtime"),
    ("index-negative", lambda: G.idx(G.var("তালিকা"), G.num(-1)), "runtime"),
    ("missing-key", lambda: G.idx(G.var("নথি"), G.s("নাই")), "runtime"),
    ("missing-key-deep", lambda: G.idx(G.idx(G.var("নথি"), G.s("ভিতর")), G.s("নাই")), "runtime"),
    ("push-invalid", lambda: G.call("_লিস্ট-পুশ", G.var("তালিকা"), G.num(9), G.num(1)), "runtime"),
    ("pop-invalid", lambda: G.call("_লিস্ট-পপ", G.var("তালিকা"), G.num(3)), "runtime"),
    ("call-non-function", lambda: G.call("তালিকা", G.num(1)), "runtime"),
    ("to-num", lambda: G.call("_সংখ্যা", G.s("abc")), "runtime"),
    ("error-builtin", lambda: G.call("_এরর", G.s("নিজস্ব বার্তা ১২৩")), "runtime"),
    ("split-bad", lambda: G.call("_স্ট্রিং-স্প্লিট", G.s("a"), G.num(1)), "runtime"),
    # long payloads in the diagnostic (scale): keys, names and texts far beyond one line, in Bangla (multi-byte)
    ("missing-key-long", lambda: G.idx(G.var("নথি"), G.s("আমাদের ছোট নদী চলে বাঁকে বাঁকে বৈশাখ মাসে তার হাঁটু জল থাকে")), "runtime"),
    ("missing-key-long-ascii", lambda: G.idx(G.var("নথি"), G.s("k" * 300)), "runtime"),
    ("undeclared-long-name", lambda: G.var("অঘোষিত-" + "চলক" * 40), "runtime"),
    ("to-num-long", lambda: G.call("_সংখ্যা", G.s("সংখ্যা নয় " * 60)), "runtime"),
    ("push-invalid-huge", lambda: G.call("_লিস্ট-পুশ", G.var("তালিকা"), G.num("9" * 30), G.num(1)), "runtime"),
    ("index-huge", lambda: G.idx(G.var("তালিকা"), G.num("1" + "0" * 25)), "runtime"),
    # the whole container-kind x index-kind table of read indexing (the error class differs per cell)
    ("index-num-on-record", lambda: G.idx(G.var("নথি"), G.num(0)), "runtime"),
    ("index-num-on-number", lambda: G.idx(G.var("পাঁচ"), G.num(0)), "runtime"),
    ("index-num-on-string", lambda: G.idx(G.var("লেখা"), G.num(0)), "runtime"),
    ("index-str-on-list", lambda: G.idx(G.var("তালিকা"), G.s("k")), "type"),
    ("index-bool-on-list", lambda: G.idx(G.var("তালিকা"), G.b(True)), "type"),
    ("index-str-on-number", lambda: G.idx(G.var("পাঁচ"), G.s("k")), "runtime"),
    ("index-bool-on-record", lambda: G.idx(G.var("নথি"), G.b(True)), "type"),
    ("index-list-on-record", lambda: G.idx(G.var("নথি"), G.var("তালিকা")), "type"),
    ("index-bool-on-number", lambda: G.idx(G.var("পাঁচ"), G.b(False)), "runtime"),
]
SETUP = [("decl", "তালিকা", G.lst(G.num(1), G.num(2), G.num(3))), ("decl", "নথি", G.rec((G.s("k"), G.num(1)), (G.s("ভিতর"), G.rec((G.s("z"), G.num(2)))))),
         ("decl", "পাঁচ", G.num(5)), ("decl", "লেখা", G.s("ab"))]


def fault_stmt(pos, fe, ok_expr):
    """the statement (one line) that contains the faulting expression `fe` at position `pos`"""
    if pos == 0:
        return [("print", fe)]
    if pos == 1:
        return [("decl", "ফল", fe)]
    if pos == 2:
        return [("assign", "তালিকা", [], fe)]
    if pos == 3:
        return [("expr", fe)] if fe[0] == "call" else [("print", G.lst(G.num(1), fe))]
    if pos == 4:
        return [("rawstmt", [("যদি", "word")] + G.toks_expr(fe) + [("{", "op"), ("দেখাও", "word"), ('"ভিতরে"', "str"), (";", "op"), ("}", "op")])]
    if pos == 5:
        return [("rawstmt", [("যদি", "word"), ("মিথ্যা", "word"), ("{", "op"), ("}", "op"), ("অথবা", "word"), ("যদি", "word")] + G.toks_expr(fe) + [("{", "op"), ("}", "op")])]
    if pos == 6:
        return [("print", G.call("একই", fe))]
    if pos == 7:
        return [("assign", "তালিকা", [G.num(0)], fe)]
    if pos == 9:
        return [("return", fe)]              # directly in a return operand (only used at call depth >= 1)
    if pos == 10:
        # a user-function call has already returned when the fault happens, in the same statement
        return [("print", G.lst(G.call("একই", G.num(1)), fe))]
    if pos == 11:
        return [("print", G.bin_("==", G.call("একই", G.num(1)), fe))]
    return [("print", G.bin_("==", fe, ok_expr))]


SPECIAL = [
    ("undeclared-assign", [("assign", "অঘোষিত", [], G.num(1))], "runtime"),
    ("non-boolean-condition", [("rawstmt", [("যদি", "word"), ("৫", "num"), ("{", "op"), ("}", "op")])], "runtime"),
    ("index-write-out-of-range", [("assign", "তালিকা", [G.num(5)], G.num(1))], "runtime"),
    ("index-write-empty-index", [("rawstmt", [("তালিকা", "word"), ("[", "op"), ("]", "op"), ("=", "op"), ("১", "num"), (";", "op")])], "runtime"),
    ("write-path-missing-key", [("assign", "নথি", [G.s("নাই"), G.s("x")], G.num(1))], "runtime"),
    ("write-path-wrong-kind", [("assign", "তালিকা", [G.s("k")], G.num(1))], "runtime"),
    ("write-path-record-number-key", [("assign", "নথি", [G.num(0)], G.num(1))], "runtime"),
    ("write-path-on-number", [("assign", "পাঁচ", [G.num(0)], G.num(1))], "type"),
    ("write-path-through-number", [("assign", "তালিকা", [G.num(0), G.num(0)], G.num(1))], "type"),
    ("write-path-through-string-field", [("assign", "নথি", [G.s("k"), G.s("x")], G.num(1))], "type"),
    ("call-number-literal", [("rawstmt", [("দেখাও", "word"), ("৫", "num"), ("(", "op"), (")", "op"), (";", "op")])], "runtime"),
    ("call-string-literal", [("rawstmt", [("দেখাও", "word"), ("\"ক\"", "str"), ("(", "op"), ("১", "num"), (")", "op"), (";", "op")])], "runtime"),
    ("index-write-after-call-in-index", [("assign", "তালিকা", [G.call("একই", G.num(7))], G.num(1))], "runtime"),
    ("index-write-after-call-in-value", [("assign", "তালিকা", [G.num(5)], G.call("একই", G.num(1)))], "runtime"),
    ("write-path-missing-key-long", [("assign", "নথি", [G.s("নদীর ধারে " * 12), G.s("x")], G.num(1))], "runtime"),
    ("error-builtin-with-call-argument", [("expr", G.call("_এরর", G.call("একই", G.s("ডাকের পরে"))))], "runtime"),
    ("print-nil", [("decl", "শূন্য", None), ("print", G.var("শূন্য"))], "type"),
    ("print-function", [("print", G.var("একই"))], "type"),
    ("stray-else", [("rawstmt", [("অথবা", "word"), ("{", "op"), ("}", "op")])], "runtime"),
    ("continue-outside-loop", [("continue",)], "runtime"),
    ("break-outside-loop", [("break",)], "runtime"),
]


def build(r, stmts_fault, depth, in_module, cls, msg=None):
    """program text (main + optional module), expected output, expected error line and file"""
    nprints = r.range(0, 4)
    pre = [("print", G.s(f"আগে-{i}")) for i in range(nprints)]
    body = list(SETUP) + [("func", "একই", ["x"], [("return", G.var("x"))])] + pre + stmts_fault + [("print", G.s("পরে"))]
    # wrap in `depth` nested calls: f_d calls f_{d-1} ...; the fault sits in the innermost function
    if depth == 0:
        unit = body
        fault_index = len(SETUP) + 1 + nprints + len(stmts_fault) - 1
    else:
        unit = []
        inner = ("func", "স্তর০", [], body + [("return", G.num(0))])
        unit.append(inner)
        for d in range(1, depth):
            unit.append(("func", f"স্তর{G.bn_digits(str(d))}", [], [("print", G.s(f"স্তর-{d}")), ("return", G.call(f"স্তর{G.bn_digits(str(d - 1))}"))]))
        unit.append(("print", G.s("ডাক")))
        unit.append(("print", G.call(f"স্তর{G.bn_digits(str(depth - 1))}")))
        unit.append(("print", G.s("ফেরার পরে")))
    src_unit = G.source(unit, "lines")
    # find the line of the faulting statement: render prefix up to and including it
    if depth == 0:
        line = G.source(unit[: fault_index + 1], "lines").count("\n")
        out = "".join(f"আগে-{i}\n" for i in range(nprints))
    else:
        head = G.source([("func", "স্তর০", [], [])], "lines")   # 'ফাং স্তর০ ( ) {' occupies line 1
        inner_prefix = list(SETUP) + [("func", "একই", ["x"], [("return", G.var("x"))])] + pre + stmts_fault
        line = 1 + G.source(inner_prefix, "lines").count("\n")
        out = "ডাক\n" + "".join(f"স্তর-{d}\n" for d in range(depth - 1, 0, -1)) + "".join(f"আগে-{i}\n" for i in range(nprints))
    if in_module:
        main = G.source([("print", G.s("মূল")), ("import", "ম", "mod/fault.pakhi"), ("print", G.s("মূলে ফেরা"))], "lines")
        # module identifiers get the prefix ম/ ; the text of the module is the unit itself
        return main, src_unit, "মূল\n" + out, line, "fault.pakhi"
    return src_unit, None, out, line, "main.pakhi"


def oracle(case, impl, model):
    a = C.RunAns(impl[case.info["run_index"]])
    inf = case.info
    if a.kind in ("abort", "panic", "malformed"):
        return [f"process-level failure instead of a Pakhi error: {a.raw[:160]}"]
    if a.kind != "err":
        return [f"expected the program to stop with an error at line {inf['line']}, it ended with {a.kind}, output {a.out!r}"]
    probs = []
    if a.out != inf["out"]:
        probs.append(f"output {a.out!r}, expected exactly the preceding prints {inf['out']!r}")
    if a.err_class() != inf["cls"]:
        probs.append(f"error class {a.err_class()}, expected {inf['cls']}")
    if a.err_line() != inf["line"]:
        probs.append(f"error line {a.err_line()}, the faulting statement is on line {inf['line']}")
    if os.path.basename(a.err_file() or "") != inf["file"]:
        probs.append(f"error file {a.err_file()!r}, the statement is written in {inf['file']}")
    if inf.get("msg") is not None and a.err_msg() != inf["msg"]:
        probs.append(f"_এরর message {a.err_msg()!r}, expected {inf['msg']!r}")
    return probs


def mk_case(name, r, stmts, depth, in_module, cls, msg, root_ph="@ROOT@"):
    main, mod, out, line, file = build(r, stmts, depth, in_module, cls, msg)
    lines = []
    if mod is not None:
        lines += ["RESET", "FILE " + C.hx(f"{root_ph}/mod/fault.pakhi") + " " + C.hx(mod)]
    lines.append(run_req(main, spec=1))
    return C.Case(name, lines, cmp_run(line=True, file=True, msg=msg is not None), oracle,
                  info={"main": main, "module": mod, "out": out, "line": line, "file": file, "cls": cls, "msg": msg, "run_index": len(lines) - 1,
                        "depth": depth, "in_module": in_module}, nontrivial=depth >= 1 or in_module)


def closing_return_faults(tier):
    """the fault sits in the operand of the return written AFTER the function's block (`ফাং f(x) { … } ফেরত <fault>;`), the body
    being empty or not, the function called from the top level, from another such function, or living in a module: the reported
    location is the line (and file) that return is written on, never the call site"""
    out = []
    for fi, (fname, fmk, cls) in enumerate(FAULTS):
        for body_kind in ("empty", "one-statement"):
            for ctx in ("top", "nested", "module"):
                if tier != "thorough" and (fi + len(body_kind) + len(ctx)) % 2:
                    continue
                body = [] if body_kind == "empty" else [("print", G.s("দেহ"))]
                unit = list(SETUP) + [("func", "একই", ["x"], [("return", G.var("x"))]), ("func", "খালি", ["প"], body, fmk())]
                marker = G.source(unit, "lines").count("\n")          # the closing return is the last line rendered so far
                if ctx == "nested":
                    unit.append(("func", "বাইরে", [], [], G.call("খালি", G.num(1))))
                    call = G.call("বাইরে")
                else:
                    call = G.call("খালি", G.num(1))
                unit += [("print", G.s("ডাকের আগে")), ("print", call), ("print", G.s("পরে"))]
                src = G.source(unit, "lines")
                outp = "ডাকের আগে\n" + ("দেহ\n" if body_kind != "empty" else "")
                msg = "নিজস্ব বার্তা ১২৩" if fname == "error-builtin" else None
                if ctx == "module":
                    main = G.source([("print", G.s("মূল")), ("import", "ম", "mod/fault.pakhi"), ("print", G.s("মূলে ফেরা"))], "lines")
                    lines = ["RESET", "FILE " + C.hx("@ROOT@/mod/fault.pakhi") + " " + C.hx(src), run_req(main, spec=1)]
                    info = {"main": main, "module": src, "out": "মূল\n" + outp, "line": marker, "file": "fault.pakhi"}
                else:
                    lines = [run_req(src, spec=1)]
                    info = {"main": src, "module": None, "out": outp, "line": marker, "file": "main.pakhi"}
                info.update({"cls": cls, "msg": msg, "run_index": len(lines) - 1, "fault": fname, "body": body_kind, "ctx": ctx})
                out.append(C.Case("closing-return-fault", lines, cmp_run(line=True, file=True, msg=msg is not None), oracle, info=info))
    return out


def multiline_before_fault():
    contents = ["\u0995\n", "\n", "\u0995\n\u0996\n", "\u0995\r\n", "\u0995\n\n", "\u0995\n\u0996", "\n\u0995", "\u0995\n\r", "\u0995\r", "\n\n\n", " \n "]
    show, name = "\u09a6\u09c7\u0996\u09be\u0993", "\u09a8\u09be\u09ae"      # দেখাও, নাম
    faults = [(show + " \u09a4[\u09eb];", "runtime"), (show + " \u0985\u099c\u09be\u09a8\u09be;", "runtime"), (show + " \u09e7 + \"x\";", "type")]
    out = []
    for cnt in contents:
        for wrap in ("decl", "print", "comment", "list", "two"):
            for gap in ("\n", "\n\n", " "):
                for fsrc, cls in faults:
                    head = name + " \u09a4 = [\u09e7, \u09e8];\n"
                    if wrap == "decl":
                        mid = name + ' \u09b6 = "' + cnt + '";'
                        printed = ""
                    elif wrap == "print":
                        mid = "_" + show + ' "' + cnt + '";'
                        printed = cnt
                    elif wrap == "comment":
                        mid = "#" + cnt + "#"
                        printed = ""
                    elif wrap == "list":
                        mid = name + ' \u09b6 = ["' + cnt + '", "' + cnt + '"];'
                        printed = ""
                    else:
                        mid = "_" + show + ' "' + cnt + '" + "' + cnt + '";'
                        printed = cnt + cnt
                    src = head + mid + gap + fsrc + "\n" + show + ' "\u09aa\u09b0\u09c7";\n'
                    line = (head + mid + gap).count("\n") + 1
                    out.append(C.Case("multiline-before-fault", [run_req(src, spec=1)], cmp_run(line=True, file=True), oracle,
                                      info={"main": src, "module": None, "out": printed, "line": line, "file": "main.pakhi", "cls": cls, "msg": None,
                                            "run_index": 0, "wrap": wrap}))
    return out


def cases(rng, tier, stats):
    out = []
    n = 0
    kinds = {}
    for fi, (fname, fmk, cls) in enumerate(FAULTS):
        for pos in range(12):
            for depth in (0, 1, 2, 3):
                for in_module in (False, True):
                    if pos == 9 and depth == 0:
                        continue
                    if tier != "thorough" and pos in (10, 11) and (fi + pos + depth + in_module) % 2 != 0:
                        continue
                    if tier != "thorough" and pos not in (9, 10, 11) and (fi * 7 + pos * 3 + depth + in_module) % 4 != 0:
                        continue
                    if tier != "thorough" and pos == 9 and (fi + depth + in_module) % 2 != 0:
                        continue
                    if cls == "runtime" and pos in (4, 5) and fname not in ("undeclared", "index-out-of-range", "missing-key", "error-builtin", "to-num"):
                        pass
                    r = rng.fork(f"{fname}-{pos}-{depth}-{in_module}")
                    msg = "নিজস্ব বার্তা ১২৩" if fname == "error-builtin" else None
                    st = fault_stmt(pos, fmk(), G.num(1))
                    out.append(mk_case("fault-matrix", r, st, depth, in_module, cls, msg))
                    kinds[fname] = kinds.get(fname, 0) + 1
                    n += 1
    for sname, st, cls in SPECIAL:
        for depth in (0, 2):
            for in_module in (False, True):
                if sname in ("continue-outside-loop", "break-outside-loop", "stray-else") and depth > 0:
                    continue
                r = rng.fork(f"{sname}-{depth}-{in_module}")
                out.append(mk_case("fault-special", r, st, depth, in_module, cls, None))
                kinds[sname] = kinds.get(sname, 0) + 1
                n += 1
    # wrong built-in argument, systematically: every argument tuple of length 0..3 over one value of each kind for the
    # pure built-ins; exactly the documented shapes are accepted, every other call is a runtime error on its own line
    import itertools
    from props.base import prog_case
    pool = [G.s("১২"), G.num(1), G.lst(G.num(1), G.num(2)), G.b(True), G.rec((G.s("k"), G.num(1)))]
    nt = 0
    for fn in ("_স্ট্রিং", "_সংখ্যা", "_লিস্ট-পুশ", "_লিস্ট-পপ", "_লিস্ট-লেন", "_এরর"):
        for ln in range(0, 4):
            for args in itertools.product(pool, repeat=ln):
                if tier != "thorough" and ln == 3 and (nt % 3) != 0:
                    nt += 1
                    continue
                out.append(prog_case("argument-tuples", [("print", G.s("আগে")), ("print", G.call(fn, *args)), ("print", G.s("পরে"))], line=True))
                nt += 1
    stats["argument_tuples"] = nt
    stats["fault_cases"] = n
    stats["fault_kinds"] = kinds
    # the index expression of a READ changes the length of the list being indexed (pop / push through a parameter or a global):
    # the position is checked against the list as it is after the index has been evaluated — a located error or the element, no panic
    from props.base import prog_case as _pc
    ne = 0
    for effect in ("pop", "pop2", "push", "none"):
        for ret in (0, 1, 2, 3):
            for via in ("param", "global"):
                body = {"pop": [("expr", G.call("_লিস্ট-পপ", G.var("ল")))], "pop2": [("expr", G.call("_লিস্ট-পপ", G.var("ল"))), ("expr", G.call("_লিস্ট-পপ", G.var("ল")))],
                        "push": [("expr", G.call("_লিস্ট-পুশ", G.var("ল"), G.s("নতুন")))], "none": []}[effect]
                if via == "param":
                    fn = ("func", "কাজ", ["ল"], body + [("return", G.num(ret))]); call = G.call("কাজ", G.var("তা"))
                else:
                    fn = ("func", "কাজ", [], [("decl", "ল", G.var("তা"))] + body + [("return", G.num(ret))]); call = G.call("কাজ")
                prog = [("decl", "তা", G.lst(G.s("ক"), G.s("খ"), G.s("গ"))), fn, ("print", G.s("শুরু")),
                        ("print", G.idx(G.var("তা"), call)), ("print", G.var("তা")), ("print", G.s("পরে"))]
                out.append(_pc("index-effect-on-same-list", prog, info={"effect": effect, "index": ret, "via": via}))
                ne += 1
    stats["index_effect_on_same_list"] = ne
    # a literal or comment that spans lines (contents ending in a line break, starting with one, holding blank lines or CR LF)
    # stands before the faulting statement: the reported line is the line the statement is written on, counted in line breaks
    cr = closing_return_faults(tier)
    out += cr
    stats["closing_return_faults"] = len(cr)
    ml = multiline_before_fault()
    out += ml
    stats["multiline_before_fault"] = len(ml)
    from props.C06 import index_boundary_family
    ib = index_boundary_family(tier)
    out += ib
    stats["index_boundary"] = len(ib)
    # one name in two roles (props/collisions.py): shadowed functions, parameters named like globals / built-ins / their own function,
    # bare conditions, indexed and plain writes, re-declarations — every use of a name resolves to its innermost binding
    from props import collisions
    nc_ = collisions.family()
    out += nc_
    stats["name_collision_programs"] = len(nc_)
    return out


def fix_root(cases_, root):
    for c in cases_:
        c.lines = [l if not l.startswith("FILE ") else "FILE " + C.hx(C.unhx(l.split(" ")[1]).replace("@ROOT@", root)) + " " + l.split(" ")[2] for l in c.lines]


def extra_checks(rng, tier, stats, root):
    """process level: the command line tool exits non-zero with the diagnostic on stderr"""
    probs = []
    binp, log = C.build_pakhi_binary()
    if not binp:
        return [("proof", "cli-build", "the pakhi binary does not build: " + log[-300:], {})]
    d = os.path.join(root, "cli")
    os.makedirs(d, exist_ok=True)
    progs = [('দেখাও "এক";\nদেখাও ১ + "ক";\nদেখাও "দুই";\n', "এক\n", "TypeError", 2),
             ('দেখাও "এক";\n_এরর("থামো");\n', "এক\n", "RuntimeError: থামো", 2),
             ('নাম ক = [১];\nদেখাও ক[৫];\n', "", "RuntimeError", 2),
             ('দেখাও "ঠিক";\n', "ঠিক\n", None, None),
             ('দেখাও ১ +;\n', "", "SyntaxError", 1),
             ('নাম ক = "খোলা;\n', "", None, None)]
    n = 0
    for src, want_out, want_err, line in progs:
        p = os.path.join(d, f"t{n}.pakhi")
        open(p, "w", encoding="utf-8").write(src)
        r = subprocess.run([binp, p], stdout=subprocess.PIPE, stderr=subprocess.PIPE, timeout=20)
        so, se = r.stdout.decode("utf-8", "replace"), r.stderr.decode("utf-8", "replace")
        if want_err is None:
            if r.returncode != 0 and "খোলা" not in src:
                probs.append(("impl-vs-oracle", "cli", f"program {src!r}: exit status {r.returncode}, stderr {se!r}", {"src": src}))
        else:
            if r.returncode == 0 or r.returncode < 0 or r.returncode == 101:
                probs.append(("impl-vs-oracle", "cli", f"program {src!r}: exit status {r.returncode} (expected a plain non-zero exit), stderr {se[:200]!r}", {"src": src}))
            elif not se.startswith(want_err) or f"line: {line}" not in se:
                probs.append(("impl-vs-oracle", "cli", f"program {src!r}: diagnostic {se!r} does not start with {want_err!r} / name line {line}", {"src": src}))
            elif so != want_out:
                probs.append(("impl-vs-oracle", "cli", f"program {src!r}: stdout {so!r}, expected {want_out!r}", {"src": src}))
        n += 1
    stats["cli_runs"] = n
    return probs
