"""C14 — imported modules are namespaced: no name capture in either direction."""
import common as C
import gen as G
import structsem
from props.base import run_req, cmp_run

RULE = ("programs split over 1..4 module files in nested directories (main -> A, B; A -> C; ... every tree and diamond "
        "shape up to 4 files), all files drawing their global, function, parameter and local names from one pool of 3 names "
        "so that every pair of files collides; random aliases; built-in functions, _প্ল্যাটফর্ম and _ডাইরেক্টরি used inside "
        "modules; main reads A/n, A/f(), A/C/n and its own n, and also tries names that must not be visible. Oracle: the "
        "structured semantics of the inlined program in which every module identifier is renamed apart by its alias path "
        "(so capture in either direction changes the output) and _ডাইরেক্টরি is the directory of the file it is written in. "
        "Also compared with the Lean model. Non-trivial: at least two files define the same name."
        ' Name pools that are a prefix / an extension of the names the import step leaves unqualified (`_`, `_প`, platform / directory constant plus suffix); directory and file names outside ASCII, with blanks, dots, one character.')
ASSUMPTIONS = ["user identifiers contain no '/' (NoSlash); module paths are clean relative paths"]
default_compare = lambda m, i: C.compare_run(m, i)
POOL = ["ক", "_খ", "গ"]   # one user name starts with an underscore like the built-ins do (private-helper convention): it is namespaced like any other
_PLAT, _DIR = G.canon("_প্ল্যাটফর্ম"), G.canon("_ডাইরেক্টরি")
POOLS = [POOL, POOL, ["_", "ক", "গ"], ["_", "__", _PLAT[:2]], [_PLAT[:-1], _PLAT + "২", "ক"], [_DIR[:-1], _DIR + "-২", "_"],
         [G.canon("_টাইপ") + "২", G.canon("_স্ট্রিং")[:-1], "_খ"], ["ক", "কক", "ককক"]]
FILES = ["a.pakhi", "lib/b.pakhi", "lib/inner/c.pakhi", "d.pakhi"]
KEEP = None


def keep_names():
    global KEEP
    if KEEP is None:
        KEEP = set(structsem.BUILTINS) | {G.canon("_প্ল্যাটফর্ম"), G.canon("_ডাইরেক্টরি"), G.canon("_রিড-লাইন"), G.canon("_টাইপ")}
        KEEP |= set(G._CANON.values())
    return KEEP


def rename_expr(e, pre, dirname):
    k = e[0]
    if k == "var":
        if e[1] == G.canon("_ডাইরেক্টরি"):
            return ("str", dirname)
        return e if e[1] in keep_names() else ("var", pre + e[1])
    if k in ("num", "str", "bool"):
        return e
    if k == "bin":
        return ("bin", e[1], rename_expr(e[2], pre, dirname), rename_expr(e[3], pre, dirname))
    if k == "un":
        return ("un", e[1], rename_expr(e[2], pre, dirname))
    if k == "grp":
        return ("grp", rename_expr(e[1], pre, dirname))
    if k == "call":
        return ("call", rename_expr(e[1], pre, dirname), [rename_expr(a, pre, dirname) for a in e[2]])
    if k == "idx":
        return ("idx", rename_expr(e[1], pre, dirname), rename_expr(e[2], pre, dirname))
    if k == "list":
        return ("list", [rename_expr(a, pre, dirname) for a in e[1]])
    if k == "rec":
        return ("rec", [(rename_expr(a, pre, dirname), rename_expr(b, pre, dirname)) for a, b in e[1]])
    raise ValueError(k)


def inline(units, name, pre, root):
    """statements of file `name` with identifiers prefixed by `pre`, imports replaced by the module's code"""
    out = []
    dirname = root + "/" + ("/".join(name.split("/")[:-1]) + "/" if "/" in name else "")
    R = lambda e: rename_expr(e, pre, dirname)
    def stmts(sts):
        res = []
        for st in sts:
            k = st[0]
            if k == "import":
                res += inline(units, st[2], pre + st[1] + "/", root)
            elif k in ("print", "printn", "expr"):
                res.append((k, R(st[1])))
            elif k == "decl":
                res.append(("decl", pre + st[1], R(st[2]) if st[2] is not None else None))
            elif k == "assign":
                res.append(("assign", pre + st[1], [R(i) for i in st[2]], R(st[3])))
            elif k == "func":
                res.append(("func", pre + st[1], [pre + p for p in st[2]], stmts(st[3])))
            elif k == "return":
                res.append(("return", R(st[1]) if st[1] is not None else None))
            elif k == "if":
                res.append(("if", [(R(c), stmts(b)) for c, b in st[1]], stmts(st[2]) if st[2] is not None else None))
            elif k == "block":
                res.append(("block", stmts(st[1])))
            elif k == "loop":
                res.append(("loop", stmts(st[1])))
            else:
                res.append(st)
        return res
    return stmts(units[name])


def module_body(r, tag, imports):
    """top-level code of one file: same names everywhere, values tagged by file"""
    b = [("print", G.s(tag + "-শুরু"))]
    n1, n2, fn = r.shuffle(POOL)
    b.append(("decl", n1, G.s(tag + "-" + n1)))
    for alias, path in imports[: len(imports) // 2]:
        b.append(("import", alias, path))
    b.append(("decl", n2, G.lst(G.s(tag), G.num(r.below(9)))))
    b.append(("func", fn, [n2], [("decl", "স্থানীয়", G.bin_("+", G.var(n1), G.s("!"))), ("if", [(G.bin_("==", G.call("_টাইপ", G.var(n2)), G.s("_শূন্য")), [("return", G.var("স্থানীয়"))])], None),
                                  ("return", G.bin_("+", G.var("স্থানীয়"), G.call("_স্ট্রিং", G.call("_লিস্ট-লেন", G.var(n2)))))]))
    for alias, path in imports[len(imports) // 2:]:
        b.append(("import", alias, path))
    b.append(("print", G.call(fn)))
    b.append(("print", G.call(fn, G.var(n2))))
    # history: the module-level name has now been read at top level; a parameter of the same name still shadows it
    b.append(("print", G.call(fn, G.lst(G.s(tag), G.num(1), G.num(2), G.num(3), G.num(4)))))
    b.append(("print", G.call(fn)))
    k = r.below(4)
    if k == 0:
        b.append(("print", G.var("_প্ল্যাটফর্ম")))
    elif k == 1:
        b.append(("print", G.var("_ডাইরেক্টরি")))
    elif k == 2:
        b.append(("assign", n1, [], G.bin_("+", G.var(n1), G.s("+"))))
    for alias, path in imports:
        for nm in r.shuffle(POOL)[:2]:
            b.append(("print", G.call("_টাইপ", G.var(alias + "/" + nm))))
    b.append(("print", G.var(n1)))
    b.append(("print", G.s(tag + "-শেষ")))
    return b, (n1, n2, fn)


def cases(rng, tier, stats):
    out = []
    n = 6000 if tier == "thorough" else 250
    shapes = [[], [(0, [])], [(0, []), (1, [])], [(0, [(2, [])])], [(0, [(2, [])]), (1, [])], [(0, [(2, [])]), (1, [(3, [])])],
              [(0, [(2, []), (3, [])])], [(0, [(1, [(2, [(3, [])])])])], [(0, [(2, [])]), (1, [(2, [])])], [(0, []), (0, [])]]
    hist = {}
    for i in range(n):
        r = rng.fork(f"m{i}")
        shape = r.choice(shapes)
        # the three colliding names of this program: plain ones, or names that are a prefix / an extension of the names the
        # import step leaves unqualified (`_`, `_প`, the platform and directory constants plus a suffix, a built-in's name plus a suffix)
        global POOL
        POOL = list(r.choice(POOLS))
        units = {}
        aliases = ["মড", "ক", "লাইব", "A"]
        def build(children, tag, fname):
            imps = []
            for ci, (fi, sub) in enumerate(children):
                alias = r.choice(aliases) + G.bn_digits(str(ci))
                if FILES[fi] not in units:
                    build(sub, "f" + str(fi), FILES[fi])
                imps.append((alias, FILES[fi]))
            body, names = module_body(r, tag, imps)
            units[fname] = body
            return imps
        imps = build(shape, "মূল", "main.pakhi")
        main = units["main.pakhi"]
        # reach into nested modules and try names that must not leak
        def paths(children, pre):
            res = []
            for ci, (fi, sub) in enumerate(children):
                res.append(pre)
            return res
        for alias, path in imps:
            child = units[path]
            for st in child:
                if st[0] == "import":
                    main.append(("print", G.call("_টাইপ", G.var(alias + "/" + st[1] + "/" + r.choice(POOL)))))
        if r.chance(0.3) and imps:
            main.append(("print", G.var(imps[0][0] + "/" + "স্থানীয়")))      # a callee local is not a module global
        hist[len(units)] = hist.get(len(units), 0) + 1
        root = "@ROOT@"
        lines = ["RESET"]
        for fname, body in units.items():
            if fname != "main.pakhi":
                lines.append("FILE " + C.hx(f"{root}/{fname}") + " " + C.hx(G.source(body, "lines")))
        lines.append(run_req(G.source(main, "lines")))
        out.append(C.Case("module-split", lines, cmp_run(), oracle, info={"units": units, "files": list(units), "run_index": len(lines) - 1}, nontrivial=len(units) >= 2))
    # `_ডাইরেক্টরি` is the directory of the file it is written in — also when the interpreter is started with a bare relative file name
    # (`pakhi main.pakhi` from inside the directory) and the module is a sibling of the root file or sits in sub-directories:
    # the same program is run with the absolute and with the relative main path, both must read every module's own data file
    root = "@ROOT@"
    nd = 0
    layouts = [["helper.pakhi"], ["lib/sub.pakhi"], ["helper.pakhi", "lib/sub.pakhi"], ["lib/deep/x.pakhi", "helper.pakhi"],
               ["helper.pakhi", "other.pakhi"], ["lib/sub.pakhi", "lib/deep/x.pakhi"],
               # directory and file names outside ASCII (multi-byte in UTF-8), with a blank, with a dot, of one character
               ["\u0997\u09a3\u09bf\u09a4/\u0997\u09a3\u09bf\u09a4.pakhi"], ["lib/\u0997\u09ad\u09c0\u09b0/x.pakhi", "\u09b8\u09b9\u09be\u09af\u09bc\u0995.pakhi"],
               ["\u09a4\u09a5\u09cd\u09af \u09ad\u09be\u09a3\u09cd\u09a1\u09be\u09b0/\u0995.pakhi", "\u0995/\u0996/\u0997.pakhi"], ["\u00e9t\u00e9/x.pakhi", "lib.v2/sub.pakhi"],
               ["\u0995/x.pakhi", "\u0995\u0996/x.pakhi"], ["a/\u09a1\u09be\u0987\u09b0\u09c7\u0995\u09cd\u099f\u09b0\u09bf/m.pakhi", "\u09e7\u09e8/\u09e9.pakhi"]]
    for files in layouts:
        for nested in (False, True):
            lines = ["RESET", "FILE " + C.hx(f"{root}/data.txt") + " " + C.hx("মূল-তথ্য")]
            main = 'দেখাও _রিড-ফাইল(_ডাইরেক্টরি + "data.txt");\n'
            prev = None
            for k, f in enumerate(files):
                d = f.rsplit("/", 1)[0] + "/" if "/" in f else ""
                body = 'দেখাও _রিড-ফাইল(_ডাইরেক্টরি + "data.txt");\nনাম এখানে = _ডাইরেক্টরি;\n'
                if nested and prev is not None:
                    body += f'মডিউল ভিতর = "{prev}";\nদেখাও ভিতর/এখানে == এখানে;\n'
                lines.append("FILE " + C.hx(f"{root}/{f}") + " " + C.hx(body))
                if d:
                    lines.append("FILE " + C.hx(f"{root}/{d}data.txt") + " " + C.hx("তথ্য-" + d))
                if not nested or k == len(files) - 1:
                    main += f'মডিউল ম{G.bn_digits(str(k))} = "{f}";\nদেখাও ম{G.bn_digits(str(k))}/এখানে == _ডাইরেক্টরি;\n'
                prev = f
            main += 'দেখাও "শেষ";\n'
            lines += [run_req(main), run_req(main, rel=1)]
            out.append(C.Case("dirname-relative-main", lines, cmp_run(), dirname_oracle, info={"files": files, "nested": nested, "src": main, "run_index": len(lines) - 2}))
            nd += 1
    stats["dirname_relative_main"] = nd
    stats["programs"] = n
    stats["files_per_program"] = hist
    return out


def dirname_oracle(case, impl, model):
    """the run started with the relative main path behaves like the run started with the absolute one, and both end normally"""
    i = case.info["run_index"]
    a, b = C.RunAns(impl[i]), C.RunAns(impl[i + 1])
    probs = []
    if a.kind != "ok" or b.kind != "ok":
        probs.append(f"every module reads its own data file: absolute start ended {' '.join(a.status[:3])}, relative start ended {' '.join(b.status[:3])}")
    if a.out != b.out:
        probs.append(f"started as `pakhi main.pakhi` the program prints {b.out!r}, started with the absolute path {a.out!r}")
    return probs


def oracle(case, impl, model):
    a = C.RunAns(impl[case.info["run_index"]])
    inl = inline(case.info["units"], "main.pakhi", "", case.info["root"])
    out, st = structsem.run(inl)
    if st == "steps":
        return []
    if a.kind in ("abort", "panic", "malformed"):
        return [f"implementation {a.raw[:140]}"]
    probs = []
    if not C.match_template(out, a.out or ""):
        probs.append(f"the renamed-apart program prints {C.strip_markers(out)!r}, the modules print {a.out!r}")
    if (st == "ok") != (a.kind == "ok"):
        probs.append(f"the renamed-apart program ends with {st}, the modules end with {' '.join(a.status[:3])}")
    return probs


def fix_root(cases_, root):
    for c in cases_:
        c.info["root"] = root
        c.lines = [l if not l.startswith("FILE ") else "FILE " + C.hx(C.unhx(l.split(" ")[1]).replace("@ROOT@", root)) + " " + l.split(" ")[2] for l in c.lines]
