"""C15 — module loading terminates: cyclic imports are rejected, acyclic ones load."""
import itertools
import common as C
import gen as G
from props.base import run_req, cmp_run

RULE = ("import graphs as real files in a scratch directory: every graph over 3 files (all 512 edge sets) and a seeded sample "
        "of the 65536 graphs over 4 files in the quick tier, all 65536 in the thorough tier, each with the import statements in "
        "ascending and in descending order, files spread over nested directories; random graphs over 5..8 files; a missing "
        "file, a path without the .pakhi extension, a self import, a multi-piece path. Every file prints a line before and "
        "after its imports. Oracle (graph predicate, computed in Python): if a cycle is reachable from the root the run ends "
        "with an error and prints nothing at all; otherwise it ends normally and the output is the depth-first expansion in "
        "source order. Also compared with the Lean model. Non-trivial: the graph has a diamond, a repeated import or a cycle."
        ' The root file is on disk (cycles through the root are real); the 512 three-file graphs also started with a relative root path and over six name sets (upper-case, case-colliding, Bangla, same-normal-form, accented).'
        ' Same-alias graphs (one alias for every import of a file).')
ASSUMPTIONS = ["module paths are relative paths, clean or spelled with `./`, `/./`, `//` (no `..`); the harness uses an absolute root directory"]
default_compare = lambda m, i: C.compare_run(m, i)
PATHS = ["main.pakhi", "b.pakhi", "sub/c.pakhi", "sub/deep/d.pakhi", "e.pakhi", "sub/f.pakhi", "g.pakhi", "sub/deep/h.pakhi", "i.pakhi", "sub/j.pakhi"]


def has_cycle_from(adj, root):
    color = {}
    def dfs(u):
        color[u] = 1
        for v in adj[u]:
            if color.get(v) == 1:
                return True
            if color.get(v) is None and dfs(v):
                return True
        color[u] = 2
        return False
    return dfs(root)


def expand(adj, u, budget):
    if budget[0] <= 0:
        raise OverflowError()
    budget[0] -= 1
    s = f"f{u}-শুরু\n"
    for v in adj[u]:
        s += expand(adj, v, budget)
    return s + f"f{u}-শেষ\n"


def spell(path, k):
    """the k-th spelling of a clean relative module path: as written, `./` in front, `/./` or `//` inside"""
    if k == 1:
        return "./" + path
    if k == 2:
        return path.replace("/", "/./", 1) if "/" in path else "././" + path
    if k == 3:
        return path.replace("/", "//", 1) if "/" in path else ".//" + path
    return path


def graph_case(name, n, edges, descending, root_ph="@ROOT@", extra=None, spelling=None, paths=None, rel=False, same_alias=False):
    PATHS = paths or globals()["PATHS"]
    adj = {u: sorted([v for (a, v) in edges if a == u], reverse=descending) for u in range(n)}
    lines = ["RESET"]
    srcs = {}
    for u in range(n):
        body = f'দেখাও "f{u}-শুরু";\n'
        for k, v in enumerate(adj[u]):
            pth = PATHS[v] if spelling is None else spell(PATHS[v], spelling(u, v))
            body += f'মডিউল ম{"" if same_alias else G.bn_digits(str(k))} = "{pth}";\n'
        body += f'দেখাও "f{u}-শেষ";\n'
        srcs[u] = body
        # the root file is on disk too (an import of it by name loads it: cycles through the root are real cycles)
        lines.append("FILE " + C.hx(f"{root_ph}/{PATHS[u]}") + " " + C.hx(body))
    lines.append(run_req(srcs[0], rel=1) if rel else run_req(srcs[0]))
    cyc = has_cycle_from(adj, 0)
    exp = None
    if not cyc:
        try:
            exp = expand(adj, 0, [20000])
        except OverflowError:
            exp = None
    reach = set(); st = [0]
    while st:
        u = st.pop()
        if u not in reach:
            reach.add(u); st += adj[u]
    indeg = {}
    for u in reach:
        for v in adj[u]:
            indeg[v] = indeg.get(v, 0) + 1
    nt = cyc or any(x > 1 for x in indeg.values())
    return C.Case(name, lines, cmp_run(), oracle, info={"n": n, "edges": sorted(edges), "descending": descending, "cyclic": cyc, "expect": exp, "run_index": len(lines) - 1}, nontrivial=nt)


def oracle(case, impl, model):
    a = C.RunAns(impl[case.info["run_index"]])
    if a.kind in ("abort", "panic", "malformed", "fuel"):
        return [f"loading did not end with a value: {a.raw[:140]}"]
    if case.info["cyclic"]:
        if a.kind != "err":
            return [f"the import graph has a cycle reachable from the root but loading succeeded, output {a.out!r}"]
        if a.out:
            return [f"statements ran before the cyclic-dependency error: {a.out!r}"]
        return []
    if case.info["expect"] is None:
        return []
    if a.kind != "ok":
        return [f"acyclic import graph was rejected: {' '.join(a.status[:2])} {a.err_msg()!r}"]
    if a.out != case.info["expect"]:
        return [f"modules did not run once per import in source order: got {a.out!r}, expected {case.info['expect']!r}"]
    return []


def err_oracle(case, impl, model):
    a = C.RunAns(impl[case.info["run_index"]])
    if a.kind != "err":
        return [f"expected an error value, got {a.raw[:140]}"]
    if a.out:
        return [f"statements ran although loading failed: {a.out!r}"]
    return []


def cases(rng, tier, stats):
    out = []
    e3 = [(a, b) for a in range(3) for b in range(3)]
    n = 0
    for mask in range(1 << 9):
        edges = [e for k, e in enumerate(e3) if mask >> k & 1]
        for desc in (False, True):
            out.append(graph_case("graphs-3-exhaustive", 3, edges, desc)); n += 1
    # the same 512 graphs with the interpreter started as `pakhi main.pakhi` from inside the directory (relative root path: the
    # root file is then known under the very text an import of it is written with)
    for mask in range(1 << 9):
        if tier != "thorough" and mask % 2 == 0 and not (mask & 1):
            continue
        edges = [e for k, e in enumerate(e3) if mask >> k & 1]
        out.append(graph_case("graphs-3-relative-start", 3, edges, bool((mask >> 4) & 1), rel=True)); n += 1
    # the same 512 graphs with ONE alias for every import of a file (two different modules under the same name: both are loaded,
    # both count for the cycle check)
    for mask in range(1 << 9):
        if tier != "thorough" and mask % 3:
            continue
        edges = [e for k, e in enumerate(e3) if mask >> k & 1]
        out.append(graph_case("graphs-3-same-alias", 3, edges, bool((mask >> 5) & 1), same_alias=True)); n += 1
    # the same 512 graphs with the import paths written in other spellings (`./x`, `a/./x`, `a//x`): the file a path
    # text denotes decides, cycles through differently spelled edges are cycles
    for mask in range(1 << 9):
        edges = [e for k, e in enumerate(e3) if mask >> k & 1]
        for variant in ((0, 1) if tier == "thorough" else (mask & 1,)):
            out.append(graph_case("graphs-3-spelled", 3, edges, bool(variant), spelling=lambda u, v, m=mask, w=variant: (u * 3 + v + m + w) % 4)); n += 1
    # the same 512 graphs over files whose names differ from each other only in letter case, carry upper-case letters, or are
    # written outside ASCII: a module is the file its path text denotes, byte for byte (no case folding, no normalisation)
    name_sets = [["main.pakhi", "Ganit.pakhi", "Sub/Talika.pakhi"], ["main.pakhi", "Lib.pakhi", "lib.pakhi"], ["main.pakhi", "sub/X.pakhi", "Sub/x.pakhi"],
                 ["main.pakhi", "\u0997\u09a3\u09bf\u09a4.pakhi", "\u09a4\u09be\u09b2\u09bf\u0995\u09be/\u0997\u09a3\u09bf\u09a4.pakhi"],
                 ["main.pakhi", "\u0986\u09df.pakhi", "\u0986\u09af\u09bc.pakhi"], ["main.pakhi", "\u00c9.pakhi", "\u00e9.pakhi"]]
    nc = 0
    for si, names in enumerate(name_sets):
        for mask in range(1 << 9):
            if tier != "thorough" and (mask + si) % 3 != 0:
                continue
            edges = [e for k, e in enumerate(e3) if mask >> k & 1]
            out.append(graph_case("graphs-3-cased-names", 3, edges, bool((mask >> 3) & 1), paths=names)); n += 1; nc += 1
    stats["cased_name_graphs"] = nc
    e4 = [(a, b) for a in range(4) for b in range(4)]
    if tier == "thorough":
        masks = range(1 << 16)
        stats["exhaustive_space"] = "all 65536 import graphs over 4 files x 2 statement orders (and all 512 over 3 files)"
    else:
        masks = [rng.below(1 << 16) for _ in range(1500)] + [rng.below(1 << 16) & rng.below(1 << 16) & rng.below(1 << 16) for _ in range(1500)]
        stats["exhaustive_space"] = "all 512 import graphs over 3 files x 2 statement orders"
    stats["exhaustive"] = True
    for mask in masks:
        edges = [e for k, e in enumerate(e4) if mask >> k & 1]
        for desc in ((False, True) if tier == "thorough" else (rng.chance(0.5),)):
            out.append(graph_case("graphs-4", 4, edges, desc)); n += 1
    for i in range(3000 if tier == "thorough" else 300):
        r = rng.fork(f"g{i}")
        k = r.range(5, 8)
        edges = set()
        for _ in range(r.range(3, 10)):
            a, b = r.below(k), r.below(k)
            if r.chance(0.85) and a >= b:
                a, b = b, a + 1 if a + 1 < k else a
            if a != b or r.chance(0.3):
                edges.add((a, b))
        out.append(graph_case("graphs-random", k, sorted(edges), r.chance(0.5))); n += 1
    # shared libraries: a module with a large subtree (star, chain, tree; 4..7 loads) imported first, then a sibling
    # that reaches the same module again through 1..2 hops (diamonds over big subtrees are acyclic and must load),
    # and the same shapes closed into a real cycle
    nlib = 0
    for shape in range(4):
        for size in (3, 4, 5, 6):
            for hops in (1, 2):
                for closed in (False, True):
                    for desc in (False, True):
                        lib = 1
                        members = list(range(2, 2 + size))
                        edges = set()
                        if shape == 0:      # star
                            edges |= {(lib, m) for m in members}
                        elif shape == 1:    # chain
                            chain = [lib] + members
                            edges |= {(chain[i], chain[i + 1]) for i in range(len(chain) - 1)}
                        elif shape == 2:    # binary tree
                            nodes = [lib] + members
                            for i in range(1, len(nodes)):
                                edges.add((nodes[(i - 1) // 2], nodes[i]))
                        else:               # star whose leaves share one more leaf
                            edges |= {(lib, m) for m in members[:-1]} | {(m, members[-1]) for m in members[:-1]}
                        app = 2 + size
                        if app + hops > len(PATHS) - 1:
                            continue
                        edges |= {(0, lib), (0, app)}
                        last = app
                        for h in range(1, hops):
                            edges.add((last, app + h)); last = app + h
                        edges.add((last, lib))
                        if closed:
                            edges.add((members[-1], app))       # the library's last member imports the application: a cycle
                        out.append(graph_case("graphs-shared-library", last + 1, sorted(edges), desc)); n += 1; nlib += 1
    stats["shared_library_graphs"] = nlib
    stats["graphs"] = n
    # error values
    specials = [('মডিউল ম = "nothere.pakhi";\nদেখাও "x";\n', []), ('মডিউল ম = "b.txt";\nদেখাও "x";\n', [("b.txt", 'দেখাও "b";')]),
                ('দেখাও "x";\nমডিউল ম = "main.pakhi";\n', []), ('মডিউল ম = "sub/" + "c.pakhi";\nদেখাও "x";\n', None),
                ('মডিউল ম = "sub" + "c.pakhi";\nদেখাও "x";\n', None), ('মডিউল ম = ৫;\n', []), ('মডিউল\n', []), ('মডিউল ম = "b.pakhi"\n', [("b.pakhi", 'দেখাও "b";')]),
                ('মডিউল ম = "b.pakhi";\n', [("b.pakhi", 'দেখাও "খোলা;')]), ('মডিউল ম = "b.pakhi";\n', [("b.pakhi", 'দেখাও $;')])]
    # paths without the extension that have no final file-name component either, and other degenerate texts: an error value
    for bad in ("", ".", "./", "..", "sub/..", "/", "sub/", "sub", ".pakhi", "sub/.pakhi", "x.pakhi/", " ", "b.pakhi ", "b.PAKHI"):
        specials.append(('দেখাও "আগে";\nমডিউল ম = "' + bad + '";\nদেখাও "x";\n', [("b.pakhi", 'দেখাও "b";'), ("sub/c.pakhi", 'দেখাও "c";')]))
    # the same degenerate path texts written inside an imported module (in a sub-directory and next to the root), first / last statement
    for bad in ("", ".", "./", "..", "sub/..", "lib/..", "/", "sub/", "sub", ".pakhi", "x.pakhi/", " ", "../"):
        for where in ("b.pakhi", "sub/c.pakhi"):
            for pos in (0, 1):
                body = ['দেখাও "মডিউল";', 'মডিউল ভ = "' + bad + '";']
                body = body if pos else body[::-1]
                specials.append(('দেখাও "আগে";\nমডিউল ম = "' + where + '";\nদেখাও "x";\n', [(where, "\n".join(body) + "\n"), ("sub/d.pakhi", 'দেখাও "d";')]))
    for src, files in specials:
        lines = ["RESET"]
        ok_expected = files is None
        for p, c in (files or [("sub/c.pakhi", 'দেখাও "c";\n')]):
            lines.append("FILE " + C.hx(f"@ROOT@/{p}") + " " + C.hx(c))
        lines.append(run_req(src))
        out.append(C.Case("loader-special", lines, cmp_run(), None if ok_expected or "খোলা" in str(files) else err_oracle, info={"src": src, "run_index": len(lines) - 1}))
    return out


def fix_root(cases_, root):
    for c in cases_:
        c.lines = [l if not l.startswith("FILE ") else "FILE " + C.hx(C.unhx(l.split(" ")[1]).replace("@ROOT@", root)) + " " + l.split(" ")[2] for l in c.lines]
