"""C16 — list built-ins behave like operations on a mathematical sequence."""
import common as C
import gen as G
from props.base import prog_case

RULE = ("operation histories of length <= 40 from the empty list: append, insert-at (positions 0, middle, len-1, len, "
        "len+1, far beyond, negative, fractional), remove-last, remove-at, indexed assignment, concatenation, length; "
        "applied through two aliases; contents and length printed after every step; 15% of the operations are invalid "
        "(bad position, non-number position, non-list argument, wrong arity) and must stop with an error. A Python list "
        "is the sequence oracle (via the structured semantics); compared with the Lean model as well. "
        "Concatenation operands from every source (variable, group, container slot, record field, identity / builder / getter "
        "function results) followed by fresh allocations by every route: the operands stay what they were. "
        "Non-trivial: the history has an insert or remove at an interior position."
        ' Index-boundary family (negative fractions, minus zero, NaN, infinity, huge) for read, write, insert-at, remove-at.'
        ' Shared name-collision family (props/collisions.py): 24 scenarios in which one name is bound more than once, x 2 layouts.')
ASSUMPTIONS = []
default_compare = lambda m, i: C.compare_run(m, i)


def cases(rng, tier, stats):
    out = []
    n = 20000 if tier == "thorough" else 800
    hist = {}
    for i in range(n):
        r = rng.fork(f"h{i}")
        prog = [("decl", "ক", G.lst()), ("decl", "খ", G.var("ক"))]
        length = 0
        interior = False
        stopped = False
        cnt = 0
        for step in range(r.range(1, 40)):
            who = r.choice(["ক", "খ"])
            k = r.below(100)
            cnt += 1
            v = G.num(cnt) if r.chance(0.8) else G.s("স" + str(cnt))
            if k < 25:
                op = "push"; prog.append(("expr", G.call("_লিস্ট-পুশ", G.var(who), v))); length += 1
            elif k < 45:
                pos = r.choice([0, length, max(0, length - 1), length // 2, r.range(0, length)])
                op = "insert"; prog.append(("expr", G.call("_লিস্ট-পুশ", G.var(who), G.num(pos), v)))
                interior |= 0 < pos < length
                length += 1
            elif k < 55:
                op = "pop"; prog.append(("expr", G.call("_লিস্ট-পপ", G.var(who)))); length = max(0, length - 1)
            elif k < 68 and length > 0:
                pos = r.choice([0, length - 1, length // 2, r.range(0, length - 1)])
                op = "remove"; prog.append(("expr", G.call("_লিস্ট-পপ", G.var(who), G.num(pos))))
                interior |= 0 < pos < length - 1
                length -= 1
            elif k < 76 and length > 0:
                op = "assign"; prog.append(("assign", who, [G.num(r.range(0, length - 1))], v))
            elif k < 82:
                op = "concat"
                rhs = G.lst(v) if r.chance(0.6) else G.lst()
                prog.append(("decl", "গ", G.bin_("+", G.var("ক"), rhs) if r.chance(0.7) else G.bin_("+", rhs, G.var("ক"))))
                prog.append(("print", G.call("_লিস্ট-লেন", G.var("গ"))))
                prog.append(("expr", G.call("_লিস্ট-পুশ", G.var("গ"), G.s("নকলে"))))
                prog.append(("print", G.bin_("==", G.var("গ"), G.var("ক"))))
            elif k < 85:
                op = "fractional"; prog.append(("expr", G.call("_লিস্ট-পুশ", G.var(who), G.num(str(length // 2) + ".7"), v))); length += 1
            else:
                op = "invalid"
                bad = r.below(8)
                prog.append(("print", G.s("আগে")))
                if bad == 0:
                    prog.append(("expr", G.call("_লিস্ট-পুশ", G.var(who), G.num(length + 1 + r.below(3) * 50), v)))
                elif bad == 1:
                    prog.append(("expr", G.call("_লিস্ট-পপ", G.var(who), G.num(length + r.below(2) * 100))))
                elif bad == 2:
                    prog.append(("expr", G.call("_লিস্ট-পুশ", G.var(who), G.num(-1), v)))
                elif bad == 3:
                    prog.append(("expr", G.call("_লিস্ট-পপ", G.var(who), G.s("x"))))
                elif bad == 4:
                    prog.append(("expr", G.call("_লিস্ট-পুশ", G.num(5), v)))
                elif bad == 5:
                    prog.append(("expr", G.call("_লিস্ট-লেন", G.var(who), G.num(1))))
                elif bad == 6:
                    prog.append(("assign", who, [G.num(length)], v))
                else:
                    prog.append(("expr", G.call("_লিস্ট-পপ", G.var(who), G.num(-2))))
                stopped = True
            hist[op] = hist.get(op, 0) + 1
            prog.append(("print", G.var("ক")))
            prog.append(("print", G.call("_লিস্ট-লেন", G.var("খ"))))
            if stopped:
                break
        out.append(prog_case("list-history", prog, nontrivial=interior, info={"ops": len(prog)}))
    stats["histories"] = n
    stats["operations"] = hist
    # concatenation is a pure operation on sequences: `x = x + e` never changes what other references to the old list see
    from props.C06 import self_concat_family
    sc = self_concat_family(rng)
    out += sc
    stats["self_concat_family"] = len(sc)
    from props.C06 import operand_provenance_family
    op = operand_provenance_family(rng)
    out += op
    stats["operand_provenance_family"] = len(op)
    # positions on and next to every boundary (negative fractions, minus zero, not-a-number, infinity, huge) for read, write,
    # insert-at and remove-at: an invalid position is an error that leaves the list as it was
    from props.C06 import index_boundary_family
    ib = index_boundary_family(tier)
    out += ib
    stats["index_boundary"] = len(ib)
    # one name in two roles (props/collisions.py): shadowed functions, parameters named like globals / built-ins / their own function,
    # bare conditions, indexed and plain writes, re-declarations — every use of a name resolves to its innermost binding
    from props import collisions
    nc_ = collisions.family()
    out += nc_
    stats["name_collision_programs"] = len(nc_)
    return out
