"""C17 — split and join are inverse; type names are total."""
import itertools
import common as C
import gen as G
from props.base import prog_case, run_req, cmp_run

RULE = ("(a) exhaustive: every string of length <= 4 (quick) / 5 (thorough) over {a, b, ',', ক, ' '} with every separator of "
        "length 1..2 (quick) / 1..3 (thorough) over the same alphabet plus the empty separator: split printed element by element, "
        "join(split(s)) == s; (b) lists of strings joined then split with a single-character separator that no element "
        "contains; (c) _টাইপ on a value of each of the seven types; (d) wrong argument counts and types: ten hand-written calls plus every argument tuple of length 0..3 over one value of "
        "each kind (two strings, number, list of strings, boolean, record) for the three built-ins. "
        "Python's str.split / str.join are the oracle (through the structured semantics); compared with the Lean model too. "
        "Non-trivial: the separator occurs in the string."
        ' Shared name-collision family (props/collisions.py): 24 scenarios in which one name is bound more than once, x 2 layouts.')
ASSUMPTIONS = ["property clause 'join then split returns the list' is false for multi-character separators "
               "(KNOWN-FINDING C17-multichar); it is checked for single-character separators"]
default_compare = lambda m, i: C.compare_run(m, i)
SYM = ["a", "b", ",", "ক", " "]


def split_prog(s, sep):
    return [("decl", "স", G.s(s)), ("decl", "ভ", G.s(sep)), ("decl", "অংশ", G.call("_স্ট্রিং-স্প্লিট", G.var("স"), G.var("ভ"))),
            ("print", G.call("_লিস্ট-লেন", G.var("অংশ"))), ("print", G.var("অংশ")),
            ("print", G.bin_("==", G.call("_স্ট্রিং-জয়েন", G.var("অংশ"), G.var("ভ")), G.var("স")))]


def inverse_oracle(case, impl, model):
    """join(split(s, sep), sep) == s for a non-empty separator: the last printed line must be true"""
    a = C.RunAns(impl[0])
    if case.info.get("sep") and a.kind == "ok" and not (a.out or "").endswith("সত্য\n"):
        return [f"join(split({case.info['s']!r}, {case.info['sep']!r})) != the string: {a.out!r}"]
    return []


def cases(rng, tier, stats):
    out = []
    L = 5 if tier == "thorough" else 4
    SL = 3 if tier == "thorough" else 2
    seps = [""] + ["".join(t) for n in range(1, SL + 1) for t in itertools.product(SYM, repeat=n)]
    n = 0
    for ln in range(0, L + 1):
        for t in itertools.product(SYM, repeat=ln):
            s = "".join(t)
            for sep in (seps if ln <= 3 else seps[: 1 + len(SYM) + 10]):
                c = prog_case("split-exhaustive", split_prog(s, sep), mode="oneline", nontrivial=sep != "" and sep in s, info={"s": s, "sep": sep})
                base = c.oracle
                c.oracle = lambda case, impl, model, base=base: (base(case, impl, model) or []) + inverse_oracle(case, impl, model)
                out.append(c)
                n += 1
    stats["exhaustive_split_cases"] = n
    stats["exhaustive"] = True
    stats["exhaustive_space"] = f"strings of length <= {L} over 5 symbols x separators of length <= {SL} (+ empty)"
    for s, sep in [("", ","), (",", ","), (",,", ","), (",a,", ","), ("aaa", "aa"), ("aaaa", "aa"), ("abab", "ab"), ("কখগ", ""), ("", ""), ("ক,খ", "ক,খ"),
                   ("লাইন এক\nলাইন দুই", "\n"), ("a--b", "--"), ("পাখি ভাষা", " ")]:
        out.append(prog_case("split-special", split_prog(s, sep), mode="oneline", info={"s": s, "sep": sep}))
    m = 8000 if tier == "thorough" else 500
    for i in range(m):
        r = rng.fork(f"j{i}")
        sep = r.choice([",", " ", "ক", "-", "|"])
        pool = [c for c in ["a", "b", "খ", "x y", "", "১২", "zz", "-", ","] if sep not in c]
        lst = [r.choice(pool) for _ in range(r.range(1, 6))]
        prog = [("decl", "ল", G.lst(*[G.s(x) for x in lst])), ("decl", "জ", G.call("_স্ট্রিং-জয়েন", G.var("ল"), G.s(sep))),
                ("print", G.var("জ")), ("decl", "ফ", G.call("_স্ট্রিং-স্প্লিট", G.var("জ"), G.s(sep))), ("print", G.var("ফ")),
                ("print", G.bin_("==", G.call("_লিস্ট-লেন", G.var("ফ")), G.call("_লিস্ট-লেন", G.var("ল"))))]
        for k in range(len(lst)):
            prog.append(("print", G.bin_("==", G.idx(G.var("ফ"), G.num(k)), G.idx(G.var("ল"), G.num(k)))))
        def orc(case, impl, model):
            a = C.RunAns(impl[0])
            lines = (a.out or "").split("\n")
            if a.kind != "ok" or any(x != "সত্য" for x in lines[2:-1]):
                return [f"split(join(l, sep), sep) differs from l = {case.info['list']!r} sep {case.info['sep']!r}: {a.out!r}"]
            return []
        c = prog_case("join-then-split", prog, mode="oneline", info={"list": lst, "sep": sep})
        base = c.oracle
        c.oracle = lambda case, impl, model, base=base, orc=orc: (base(case, impl, model) or []) + orc(case, impl, model)
        out.append(c)
    # the clause that is false for multi-character separators: a KNOWN-FINDING, identified by this input
    prog = [("decl", "ল", G.lst(G.s("a"), G.s("x"))), ("decl", "জ", G.call("_স্ট্রিং-জয়েন", G.var("ল"), G.s("aa"))),
            ("decl", "ফ", G.call("_স্ট্রিং-স্প্লিট", G.var("জ"), G.s("aa"))), ("print", G.var("ফ")),
            ("print", G.bin_("==", G.idx(G.var("ফ"), G.num(0)), G.idx(G.var("ল"), G.num(0))))]
    def kf(case, impl, model):
        a = C.RunAns(impl[0])
        if a.kind == "ok" and (a.out or "").endswith("মিথ্যা\n"):
            return ['split(join(["a","x"],"aa"),"aa") = ["", "ax"], not ["a","x"]: the join-then-split clause fails for a multi-character separator']
        return []
    out.append(C.Case("C17-multichar", [run_req(G.source(prog, "oneline"))], cmp_run(), kf, info={"src": G.source(prog, "oneline")}))
    # type names
    vals = [G.num(1), G.b(False), G.s("১"), G.lst(G.num(1)), G.rec((G.s("k"), G.num(1))), G.var("ফাংশন"), G.var("শূন্য")]
    prog = [("func", "ফাংশন", [], []), ("decl", "শূন্য", None)] + [("print", G.call("_টাইপ", v)) for v in vals]
    def ty_orc(case, impl, model):
        a = C.RunAns(impl[0])
        names = (a.out or "").split("\n")[:-1]
        if a.kind != "ok" or len(set(names)) != 7:
            return [f"_টাইপ does not give seven distinct names: {names}"]
        return []
    c = prog_case("type-names", prog)
    base = c.oracle
    c.oracle = lambda case, impl, model, base=base: (base(case, impl, model) or []) + ty_orc(case, impl, model)
    out.append(c)
    bad = [G.call("_স্ট্রিং-স্প্লিট", G.s("a")), G.call("_স্ট্রিং-স্প্লিট", G.s("a"), G.num(1)), G.call("_স্ট্রিং-স্প্লিট", G.num(1), G.s(",")),
           G.call("_স্ট্রিং-স্প্লিট", G.s("a"), G.s(","), G.s(",")), G.call("_স্ট্রিং-জয়েন", G.lst(G.s("a"))), G.call("_স্ট্রিং-জয়েন", G.s("a"), G.s(",")),
           G.call("_স্ট্রিং-জয়েন", G.lst(G.s("a"), G.num(1)), G.s(",")), G.call("_স্ট্রিং-জয়েন", G.lst(G.s("a")), G.num(1)),
           G.call("_টাইপ"), G.call("_টাইপ", G.num(1), G.num(2))]
    for b in bad:
        out.append(prog_case("bad-arguments", [("print", G.s("আগে")), ("print", b), ("print", G.s("পরে"))]))
    # history: split results created after a collection has left free slots (a result list goes through the same allocator
    # as every other list): two results held at once, a list literal after them, results joined back
    nh = 0
    for garbage in ((400,) if tier != "thorough" else (260, 340, 400, 700)):
        for keep in (0, 1, 3):
            prog = [("decl", "গ", G.num(0)), ("decl", "রাখা", G.lst())]
            prog.append(("loop", [("if", [(G.bin_(">=", G.var("গ"), G.num(garbage)), [("break",)])], None),
                                  ("decl", "ফেলা", G.lst(G.var("গ"), G.num(1), G.num(2))),
                                  ("if", [(G.bin_("<", G.var("গ"), G.num(keep)), [("expr", G.call("_লিস্ট-পুশ", G.var("রাখা"), G.var("ফেলা")))])], None),
                                  ("assign", "গ", [], G.bin_("+", G.var("গ"), G.num(1)))]))
            prog += [("decl", "রং", G.call("_স্ট্রিং-স্প্লিট", G.s("লাল,নীল,সবুজ"), G.s(","))),
                     ("decl", "দিন", G.call("_স্ট্রিং-স্প্লিট", G.s("শনি রবি"), G.s(" "))),
                     ("decl", "সংখ্যা", G.lst(G.num(1), G.num(2), G.num(3))),
                     ("decl", "অক্ষর", G.call("_স্ট্রিং-স্প্লিট", G.s("কখগ"), G.s(""))),
                     ("print", G.var("রং")), ("print", G.var("দিন")), ("print", G.var("সংখ্যা")), ("print", G.var("অক্ষর")), ("print", G.var("রাখা")),
                     ("print", G.call("_লিস্ট-লেন", G.var("রং"))), ("print", G.call("_স্ট্রিং-জয়েন", G.var("রং"), G.s(","))),
                     ("print", G.bin_("==", G.call("_স্ট্রিং-জয়েন", G.var("দিন"), G.s(" ")), G.s("শনি রবি"))),
                     ("print", G.call("_টাইপ", G.idx(G.var("রং"), G.num(0)))),
                     ("expr", G.call("_লিস্ট-পুশ", G.var("দিন"), G.s("সোম"))), ("print", G.var("রং")), ("print", G.var("দিন")), ("print", G.var("সংখ্যা"))]
            out.append(prog_case("split-after-collection", prog, info={"garbage": garbage, "kept": keep}))
            nh += 1
    stats["split_after_collection"] = nh
    # `_স্ট্রিং-জয়েন` accepts a list of STRINGS only: every list of 0..3 elements over one value of each kind (so a non-string
    # element in every position, also as the only element), the list given as a literal, through a variable, a record field
    # and a function result; the result's type is probed too
    kinds = [G.s("ক"), G.s(""), G.num(7), G.b(False), G.lst(G.s("ভ")), G.rec((G.s("k"), G.s("v")))]
    nj = 0
    for ln in range(0, 4):
        for elems in itertools.product(kinds, repeat=ln):
            if ln == 3 and tier != "thorough" and (nj % 3):
                nj += 1
                continue
            lit = G.lst(*elems)
            route = nj % 4
            if route == 0:
                prog = [("print", G.call("_স্ট্রিং-জয়েন", lit, G.s("-")))]
            elif route == 1:
                prog = [("decl", "তা", lit), ("decl", "ফল", G.call("_স্ট্রিং-জয়েন", G.var("তা"), G.s("-"))), ("print", G.call("_টাইপ", G.var("ফল"))), ("print", G.var("ফল"))]
            elif route == 2:
                prog = [("decl", "ন", G.rec((G.s("সব"), lit))), ("print", G.call("_স্ট্রিং-জয়েন", G.idx(G.var("ন"), G.s("সব")), G.s("-")))]
            else:
                prog = [("func", "দাও", [], [("return", lit)]), ("decl", "ফল", G.call("_স্ট্রিং-জয়েন", G.call("দাও"), G.s("-"))), ("print", G.call("_টাইপ", G.var("ফল"))), ("print", G.var("ফল"))]
            out.append(prog_case("join-element-kinds", [("print", G.s("আগে"))] + prog + [("print", G.s("পরে"))], info={"elements": ln, "route": route}))
            nj += 1
    stats["join_element_kinds"] = nj
    # `_টাইপ` names the type of the value its argument DENOTES there: a variable bound in several live scopes to values of different
    # types (parameter over global, block local over outer, the same function re-entered with another kind of argument)
    vals = {"num": G.num(5), "str": G.s("লেখা"), "list": G.lst(G.num(1)), "bool": G.b(True), "rec": G.rec((G.s("k"), G.num(1)))}
    ns = 0
    for outer in vals:
        for inner in vals:
            if outer == inner:
                continue
            prog = [("decl", "x", vals[outer]),
                    ("func", "ধরন", ["x"], [("print", G.call("_টাইপ", G.var("x"))), ("block", [("decl", "x", G.lst()), ("print", G.call("_টাইপ", G.var("x")))]),
                                            ("return", G.call("_টাইপ", G.var("x")))]),
                    ("print", G.call("_টাইপ", G.var("x"))), ("print", G.call("ধরন", vals[inner])),
                    ("block", [("decl", "x", vals[inner]), ("print", G.call("_টাইপ", G.var("x"))), ("print", G.call("ধরন", G.var("x")))]),
                    ("print", G.call("_টাইপ", G.var("x")))]
            out.append(prog_case("type-of-shadowed", prog, info={"outer": outer, "inner": inner}))
            ns += 1
    walker = [("func", "হাঁট", ["v"], [("if", [(G.bin_("==", G.call("_টাইপ", G.var("v")), G.call("_টাইপ", G.lst())),
                                              [("decl", "i", G.num(0)), ("decl", "ফল", G.s("[")),
                                               ("loop", [("if", [(G.bin_(">=", G.var("i"), G.call("_লিস্ট-লেন", G.var("v"))), [("break",)])], None),
                                                         ("assign", "ফল", [], G.bin_("+", G.bin_("+", G.var("ফল"), G.call("হাঁট", G.idx(G.var("v"), G.var("i")))), G.s(";"))),
                                                         ("assign", "i", [], G.bin_("+", G.var("i"), G.num(1)))]),
                                               ("return", G.bin_("+", G.var("ফল"), G.s("]")))])], None),
                                       ("return", G.call("_টাইপ", G.var("v")))]),
              ("print", G.call("হাঁট", G.lst(G.num(1), G.s("দুই"), G.lst(G.num(3), G.lst(G.b(True))), G.rec((G.s("k"), G.num(1))))))]
    out.append(prog_case("type-of-shadowed", walker, info={"outer": "walker", "inner": "walker"}))
    stats["type_of_shadowed"] = ns + 1
    # every argument tuple of length 0..3 over one value of each kind: exactly the documented shapes are accepted
    pool = [G.s("a,b"), G.s(","), G.num(2), G.lst(G.s("a"), G.s("b")), G.b(True), G.rec((G.s("k"), G.num(1)))]
    nt = 0
    for fn in ("_স্ট্রিং-স্প্লিট", "_স্ট্রিং-জয়েন", "_টাইপ"):
        for ln in range(0, 4):
            for args in itertools.product(pool, repeat=ln):
                out.append(prog_case("argument-tuples", [("print", G.s("আগে")), ("print", G.call(fn, *args)), ("print", G.s("পরে"))], mode="oneline"))
                nt += 1
    stats["argument_tuples"] = nt
    # one name in two roles (props/collisions.py): shadowed functions, parameters named like globals / built-ins / their own function,
    # bare conditions, indexed and plain writes, re-declarations — every use of a name resolves to its innermost binding
    from props import collisions
    nc_ = collisions.family()
    out += nc_
    stats["name_collision_programs"] = len(nc_)
    return out
