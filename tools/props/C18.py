"""C18 — output is exactly what the executed print statements denote, in order."""
import common as C
import gen as G
import proggen
from props.base import prog_case

RULE = ("values of every scalar kind and containers nested to depth 4 in every list/record combination (empty, shared "
        "sub-containers, strings with quotes-free special characters, numbers needing 17 digits), printed through both "
        "print statements, interleaved with every other statement kind (declarations, assignments, calls, conditionals, "
        "loops, blocks) which must not write; printing nil or a function at top level and nested. Output is compared "
        "byte for byte (record entries up to order) with the Lean model and the structured semantics. "
        "Non-trivial: a container of depth >= 2 or a shared sub-container is printed."
        ' Number-representations family: 2^63, 2^64, 10^19, 10^21, 10^40, four ways to minus zero, tiny products, 30 factorials; alone, in lists, in records, doubled, through _স্ট্রিং and back.'
        ' Shared name-collision family (props/collisions.py): 24 scenarios in which one name is bound more than once, x 2 layouts.')
ASSUMPTIONS = ["record entry order is unspecified; outputs are matched up to permutation of entries", "see C09 for number text"]
default_compare = lambda m, i: C.compare_run(m, i)


def value(r, depth, cnt):
    k = r.below(12)
    if depth <= 0 or k < 5:
        j = r.below(8)
        cnt[0] += 1
        if j < 3:
            return G.num(r.choice([0, 1, -1, "0.1", "2.28", "1234567.125", "0.30000000000000004", "9007199254740993", cnt[0], "-0.5"]))
        if j < 5:
            return G.b(r.chance(0.5))
        return G.s(r.choice(["", "ক", "পাখি ভাষা", "a,b", "[x]", "@{k}", "লাইন\nদুই", "  ", "ট্যাব\tx", "১২৩"]))
    if k < 9:
        return G.lst(*[value(r, depth - 1, cnt) for _ in range(r.below(4))])
    keys = r.shuffle(["k", "চাবি", "z", "", "a b"])[: r.below(4)]
    return G.rec(*[(G.s(kk), value(r, depth - 1, cnt)) for kk in keys])


def depth_of(e):
    if e[0] == "list":
        return 1 + max([depth_of(x) for x in e[1]] + [0])
    if e[0] == "rec":
        return 1 + max([depth_of(v) for _, v in e[1]] + [0])
    return 0


def cases(rng, tier, stats):
    out = []
    n = 15000 if tier == "thorough" else 700
    deep = 0
    for i in range(n):
        r = rng.fork(f"v{i}")
        cnt = [0]
        prog = [("func", "নীরব", ["x"], [("decl", "y", G.var("x")), ("return", G.var("y"))])]
        d = 0
        for j in range(r.range(1, 5)):
            v = value(r, 4, cnt)
            d = max(d, depth_of(v))
            name = "মান" + G.bn_digits(str(j))
            prog.append(("decl", name, v))
            prog.append((r.choice(["print", "printn"]), G.var(name)))
            k = r.below(7)
            if k == 0:
                prog.append(("decl", "ভাগ", G.lst(G.var(name), G.var(name), G.rec((G.s("আবার"), G.var(name))))))
                prog.append(("print", G.var("ভাগ"))); d = max(d, 2)
            elif k == 1:
                prog.append(("expr", G.call("নীরব", G.var(name))))
                prog.append(("assign", name, [], G.num(j)))
            elif k == 2:
                prog.append(("if", [(G.b(True), [("decl", "ভিতর", G.num(1))])], [("print", G.s("না"))]))
            elif k == 3:
                prog.append(("block", [("decl", "ব", G.var(name)), ("printn", G.s("<")), ("printn", G.var("ব")), ("print", G.s(">"))]))
            elif k == 4:
                prog.append(("printn", v))
                prog.append(("printn", G.s("")))
            elif k == 5:
                prog.append(("decl", "গ", G.num(0)))
                prog.append(("loop", [("assign", "গ", [], G.bin_("+", G.var("গ"), G.num(1))), ("if", [(G.bin_(">", G.var("গ"), G.num(2)), [("break",)])], None), ("printn", G.var("গ"))]))
        if r.chance(0.1):
            bad = r.choice([G.var("নীরব"), G.var("শূন্যমান"), G.lst(G.num(1), G.var("নীরব")), G.rec((G.s("k"), G.var("শূন্যমান"))), G.lst(G.lst(G.var("শূন্যমান")))])
            prog.insert(1, ("decl", "শূন্যমান", None))
            prog.append(("print", G.s("আগে")))
            prog.append((r.choice(["print", "printn"]), bad))
            prog.append(("print", G.s("পরে")))
        deep += d >= 2
        out.append(prog_case("print-values", prog, rng=r, nontrivial=d >= 2, info={"depth": d}))
    # print history (scale): 70 executions of one print statement on one kind of value (in a loop and unrolled), then nested
    # values printed again — what a print statement writes never depends on how many prints ran before
    nested = [G.lst(G.lst(G.num(1), G.num(2)), G.lst(G.num(3), G.num(4))), G.lst(G.rec((G.s("ক"), G.num(1))), G.lst(G.num(5), G.lst(G.num(6)))),
              G.rec((G.s("ভ"), G.lst(G.rec((G.s("গ"), G.lst(G.num(7)))))))]
    kinds = {"record": G.rec((G.s("মান"), G.var("i"))), "list": G.lst(G.var("i"), G.num(2)), "nested-list": G.lst(G.lst(G.var("i"))),
             "nested-record": G.rec((G.s("ভ"), G.rec((G.s("গ"), G.var("i"))))), "scalar": G.var("i")}
    nh = 0
    for how in ("print", "printn"):
        for kname, kv in kinds.items():
            for reps in ((70,) if tier != "thorough" else (63, 64, 65, 70, 130, 300)):
                prog = [("decl", "i", G.num(0))] + [("print", v) for v in nested]
                prog.append(("loop", [("if", [(G.bin_(">=", G.var("i"), G.num(reps)), [("break",)])], None),
                                      (how, kv), ("printn", G.s(" ")), ("assign", "i", [], G.bin_("+", G.var("i"), G.num(1)))]))
                prog += [("print", G.s(""))] + [("print", v) for v in nested] + [("printn", v) for v in nested] + [("print", G.s("শেষ"))]
                out.append(prog_case("print-history", prog, info={"statement": how, "value": kname, "repetitions": reps}))
                nh += 1
    stats["print_history_programs"] = nh
    # the value is computed completely, THEN rendered: print statements whose operand contains calls that print, that mutate a list
    # which is also an earlier element / field of the value, or that fail — through both print statements, for list and record
    # literals, concatenations, nested literals and arguments of a call
    step = ("func", "ধাপ", ["n"], [("print", G.bin_("+", G.s("ধাপ "), G.call("_স্ট্রিং", G.var("n")))), ("return", G.bin_("*", G.var("n"), G.num(2)))])
    grow = ("func", "বাড়াও", ["l", "v"], [("expr", G.call("_লিস্ট-পুশ", G.var("l"), G.var("v"))), ("return", G.var("v"))])
    fail = ("func", "ভাঙো", [], [("expr", G.call("_এরর", G.s("ইচ্ছাকৃত"))), ("return", G.num(0))])
    shapes = [lambda: G.lst(G.num(1), G.call("ধাপ", G.num(2)), G.call("ধাপ", G.num(3))),
              lambda: G.rec((G.s("a"), G.call("ধাপ", G.num(1))), (G.s("b"), G.lst(G.call("ধাপ", G.num(2))))),
              lambda: G.lst(G.var("ভাগ"), G.call("বাড়াও", G.var("ভাগ"), G.num(7)), G.var("ভাগ")),
              lambda: G.bin_("+", G.lst(G.call("ধাপ", G.num(4))), G.lst(G.var("ভাগ"), G.call("বাড়াও", G.var("ভাগ"), G.num(8)))),
              lambda: G.lst(G.s("শুরু"), G.num(1), G.call("ভাঙো"), G.call("ধাপ", G.num(9))),
              lambda: G.lst(G.lst(G.call("ধাপ", G.num(5)), G.lst(G.call("ধাপ", G.num(6)))), G.call("ধাপ", G.num(7))),
              lambda: G.call("_লিস্ট-লেন", G.lst(G.call("ধাপ", G.num(1)), G.call("ধাপ", G.num(2))))]
    ne = 0
    for k, mk in enumerate(shapes):
        for stmt in ("print", "printn"):
            prog = [step, grow, fail, ("decl", "ভাগ", G.lst(G.num(0))), ("print", G.s("আগে")), (stmt, mk()), ("print", G.s("")), ("print", G.var("ভাগ")), ("print", G.s("পরে"))]
            out.append(prog_case("print-with-effects", prog, info={"shape": k, "statement": stmt}))
            ne += 1
    stats["print_with_effects"] = ne
    # number representations: whole numbers at and beyond the 64-bit integer range, minus zero (literal, product, negation,
    # remainder), 17-digit fractions, very small and very large magnitudes — printed alone, inside lists and records, nested,
    # through both print statements, as literal and as the result of arithmetic on variables
    big = [("2^63", G.num(2 ** 63)), ("2^63+2048", G.num(2 ** 63 + 2048)), ("-2^63-2048", G.num(-(2 ** 63) - 2048)), ("2^64", G.num(2 ** 64)), ("10^19", G.num(10 ** 19)),
           ("95*10^17", G.num(95 * 10 ** 17)), ("10^21", G.num(10 ** 21)), ("10^22+", G.num("12345678901234567890123")), ("10^40", G.num(10 ** 40)), ("2^53+1", G.num(2 ** 53 + 1)),
           ("minus-zero-literal", G.un("-", G.num(0))), ("minus-zero-product", G.bin_("*", G.num(0), G.num(-1))), ("minus-zero-remainder", G.bin_("%", G.num(-6), G.num(3))),
           ("minus-zero-quotient", G.bin_("/", G.grp(G.bin_("-", G.num(2), G.num(2))), G.num(-5))), ("square", G.bin_("*", G.num(4 * 10 ** 10), G.num(4 * 10 ** 10))),
           ("tiny", G.num("0.0000001")), ("tiny-product", G.bin_("*", G.num("0.00001"), G.num("0.00001"))), ("17-digits", G.num("0.30000000000000004")),
           ("huge-quotient", G.bin_("/", G.num(10 ** 25), G.num(3))), ("-10^19", G.un("-", G.num(10 ** 19)))]
    nb = 0
    for tag, e in big:
        for stmt in ("print", "printn"):
            prog = [("decl", "মান", e), (stmt, G.var("মান")), ("print", G.s("")), (stmt, e), ("print", G.s("")), (stmt, G.lst(G.var("মান"), G.un("-", G.var("মান")), G.num(2))),
                    ("print", G.s("")), (stmt, G.rec((G.s("k"), G.lst(G.var("মান"))))), ("print", G.s("")), (stmt, G.bin_("*", G.var("মান"), G.num(2))), ("print", G.s("")),
                    ("print", G.bin_("+", G.s("<"), G.bin_("+", G.call("_স্ট্রিং", G.var("মান")), G.s(">")))), ("print", G.bin_("==", G.call("_সংখ্যা", G.call("_স্ট্রিং", G.var("মান"))), G.var("মান")))]
            out.append(prog_case("number-representations", prog, info={"number": tag, "statement": stmt}))
            nb += 1
    fact = [("decl", "গুণফল", G.num(1)), ("decl", "ক", G.num(1)),
            ("loop", [("if", [(G.bin_(">", G.var("ক"), G.num(30)), [("break",)])], None), ("assign", "গুণফল", [], G.bin_("*", G.var("গুণফল"), G.var("ক"))),
                      ("print", G.var("গুণফল")), ("printn", G.lst(G.var("গুণফল"))), ("print", G.s("")), ("assign", "ক", [], G.bin_("+", G.var("ক"), G.num(1)))])]
    out.append(prog_case("number-representations", fact, info={"number": "factorials to 30!"}))
    stats["number_representation_programs"] = nb + 1
    stats["programs"] = n
    stats["with_depth_ge_2"] = deep
    # one name in two roles (props/collisions.py): shadowed functions, parameters named like globals / built-ins / their own function,
    # bare conditions, indexed and plain writes, re-declarations — every use of a name resolves to its innermost binding
    from props import collisions
    nc_ = collisions.family()
    out += nc_
    stats["name_collision_programs"] = len(nc_)
    return out
