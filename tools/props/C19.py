"""C19 — independent program fragments compose: earlier code leaves no hidden state."""
import common as C
import gen as G
import proggen
from props.base import prog_case, run_req, cmp_run
import structsem

RULE = ("pairs (P1, P2) over disjoint name spaces: P1 from a pool that exits constructs early (return inside loop inside "
        "if, break inside nested ifs, else-less true ifs, finished loops, containers dropped after crossing the collection "
        "threshold, two collections with a survivor that dies in between) plus random programs; P2 from a pool whose behaviour depends on interpreter bookkeeping (else chains, "
        "break/continue, calls inside loops, allocation-heavy code, a located runtime error) plus random programs. "
        "Three runs per pair: P1, P2, P1;P2. Metamorphic oracle on the implementation: out(P1;P2) = out(P1) ++ out(P2), "
        "same end status, error line shifted by the line count of P1; each run is also compared with the Lean model. "
        "Non-trivial: P1 leaves at least one construct early."
        ' Multiline-literal pairs: P1 written with literals / comments that span lines (ending in a line break, CR LF) x P2 with a located error.'
        ' Compose-modules pairs: fragments that import the same file under two aliases, two files, a shared helper.')
ASSUMPTIONS = ["P1 terminates normally by construction (checked: pairs whose P1 fails are skipped and counted)"]
default_compare = lambda m, i: C.compare_run(m, i, line=True)


def p1_pool():
    P = []
    P.append([("func", "প১ফ", [], [("decl", "i", G.num(0)), ("loop", [("if", [(G.b(True), [("if", [(G.b(True), [("return", G.num(1))])], None)])], None)])]),
              ("print", G.call("প১ফ")), ("print", G.call("প১ফ"))])
    P.append([("decl", "প১গ", G.num(0)), ("loop", [("assign", "প১গ", [], G.bin_("+", G.var("প১গ"), G.num(1))),
                                                   ("if", [(G.bin_(">", G.var("প১গ"), G.num(2)), [("if", [(G.b(True), [("block", [("break",)])])], None)])], None)]),
              ("print", G.var("প১গ"))])
    P.append([("if", [(G.b(True), [("print", G.s("প১-ক"))])], None), ("if", [(G.b(True), [("if", [(G.b(True), [("print", G.s("প১-খ"))])], None)])], None),
              ("if", [(G.b(False), [])], None)])
    P.append([("decl", "প১ন", G.num(0)), ("loop", [("assign", "প১ন", [], G.bin_("+", G.var("প১ন"), G.num(1))),
                                                   ("if", [(G.bin_(">", G.var("প১ন"), G.num(400)), [("break",)])], None),
                                                   ("decl", "প১ট", G.lst(G.var("প১ন"), G.lst(G.num(1), G.num(2)), G.rec((G.s("k"), G.var("প১ন")))))]),
              ("print", G.var("প১ন"))])
    P.append([("func", "প১জ", ["n"], [("loop", [("if", [(G.bin_(">", G.var("n"), G.num(0)), [("loop", [("return", G.var("n"))])])], [("return", G.num(0))])])]),
              ("decl", "প১ম", G.num(0)), ("loop", [("assign", "প১ম", [], G.bin_("+", G.var("প১ম"), G.num(1))),
                                                   ("if", [(G.bin_(">", G.var("প১ম"), G.num(2)), [("break",)])], None), ("print", G.call("প১জ", G.var("প১ম")))])])
    P.append([("if", [(G.b(False), [("print", G.s("x"))]), (G.b(True), [("print", G.s("প১-else-if"))])], [("print", G.s("y"))])])
    return P


def p2_pool():
    P = []
    P.append([("if", [(G.b(False), [("print", G.s("প২-না"))])], [("print", G.s("প২-else"))]),
              ("if", [(G.b(False), [])  , (G.b(False), [])], [("print", G.s("প২-শেষ-else"))])])
    P.append([("decl", "প২গ", G.num(0)), ("loop", [("assign", "প২গ", [], G.bin_("+", G.var("প২গ"), G.num(1))),
                                                   ("if", [(G.bin_("==", G.var("প২গ"), G.num(2)), [("continue",)])], None),
                                                   ("if", [(G.bin_(">", G.var("প২গ"), G.num(3)), [("break",)])], None), ("print", G.var("প২গ"))]),
              ("print", G.s("প২-লুপ-শেষ"))])
    P.append([("func", "প২ফ", ["x"], [("if", [(G.bin_(">", G.var("x"), G.num(1)), [("return", G.s("বড়"))])], [("return", G.s("ছোট"))])]),
              ("decl", "প২ন", G.num(0)), ("loop", [("assign", "প২ন", [], G.bin_("+", G.var("প২ন"), G.num(1))),
                                                   ("if", [(G.bin_(">", G.var("প২ন"), G.num(2)), [("break",)])], None), ("print", G.call("প২ফ", G.var("প২ন")))])])
    P.append([("decl", "প২ক", G.lst()), ("decl", "প২ই", G.num(0)),
              ("loop", [("assign", "প২ই", [], G.bin_("+", G.var("প২ই"), G.num(1))), ("if", [(G.bin_(">", G.var("প২ই"), G.num(300)), [("break",)])], None),
                        ("decl", "প২ট", G.lst(G.var("প২ই"), G.lst(G.var("প২ই")))), ("if", [(G.bin_("==", G.bin_("%", G.var("প২ই"), G.num(100)), G.num(0)), [("expr", G.call("_লিস্ট-পুশ", G.var("প২ক"), G.var("প২ট")))])], None)]),
              ("print", G.var("প২ক"))])
    P.append([("print", G.s("প২-আগে")), ("decl", "প২র", G.lst(G.num(1))), ("print", G.idx(G.var("প২র"), G.num(5))), ("print", G.s("প২-পরে"))])
    P.append([("if", [(G.b(True), [("print", G.s("প২-হ্যাঁ"))])], [("print", G.s("প২-না"))])])
    return P


def p1_counter_residue(units):
    """P1 that allocates and drops `units` allocation units (lists of 3 elements = 4 units each) and ends normally by a
    break from nested ifs: the only thing it leaves behind is the interpreter's allocation counter"""
    n = units // 4
    return [("decl", "প১ক", G.num(0)),
            ("loop", [("assign", "প১ক", [], G.bin_("+", G.var("প১ক"), G.num(1))),
                      ("if", [(G.bin_(">", G.var("প১ক"), G.num(n)), [("if", [(G.b(True), [("break",)])], None)])], None),
                      ("decl", "প১ফেলা", G.lst(G.var("প১ক"), G.num(2), G.num(3)))]),
            ("print", G.s("প১ শেষ"))]


def p2_temporaries(m, shape):
    """P2 that holds fresh, not yet stored containers while a callee allocates"""
    f = ("func", "প২বানাও", ["n"], [("decl", "i", G.num(0)),
                                     ("loop", [("if", [(G.bin_(">=", G.var("i"), G.var("n")), [("break",)])], None),
                                               ("assign", "i", [], G.bin_("+", G.var("i"), G.num(1))), ("decl", "t", G.lst(G.var("i"), G.var("i")))]),
                                     ("return", G.var("n"))])
    call = G.call("প২বানাও", G.num(m))
    e = [G.bin_("+", G.lst(G.num(7), G.num(8), G.num(9)), G.lst(call)),
         G.lst(G.lst(G.s("ক"), G.s("খ")), G.rec((G.s("k"), G.lst(G.num(1)))), call),
         G.rec((G.s("আগে"), G.lst(G.num(1), G.num(2))), (G.s("ডাক"), call))][shape]
    return [f, ("decl", "প২ফল", e), ("print", G.var("প২ফল")), ("print", G.s("প২ শেষ"))]


def p1_free_list_residue(rows, keep, size):
    """P1 that goes through two collections: `rows` one-element lists, all but row `keep` dropped before the first
    collection, row `keep` dropped before the second; a long buffer copied twice supplies the allocation volume.  It ends
    normally with every container dropped: what it leaves behind is the arena and the order of its free list"""
    names = [f"প১সারি{i}" for i in range(rows)]
    prog = [("decl", n, G.lst(G.num(i + 1))) for i, n in enumerate(names)]
    prog += [("decl", "প১বাফার", G.lst()), ("decl", "প১গ", G.num(0)),
             ("loop", [("if", [(G.bin_(">=", G.var("প১গ"), G.num(size)), [("break",)])], None),
                       ("expr", G.call("_লিস্ট-পুশ", G.var("প১বাফার"), G.var("প১গ"))),
                       ("assign", "প১গ", [], G.bin_("+", G.var("প১গ"), G.num(1)))])]
    prog += [("assign", n, [], G.num(0)) for i, n in enumerate(names) if i != keep]
    prog += [("decl", "প১অনুলিপি", G.bin_("+", G.var("প১বাফার"), G.var("প১বাফার"))), ("print", G.call("_লিস্ট-লেন", G.var("প১অনুলিপি"))),
             ("print", G.var(names[keep])), ("assign", names[keep], [], G.num(0)),
             ("assign", "প১অনুলিপি", [], G.bin_("+", G.var("প১বাফার"), G.var("প১বাফার"))), ("print", G.call("_লিস্ট-লেন", G.var("প১অনুলিপি"))),
             ("assign", "প১অনুলিপি", [], G.num(0)), ("assign", "প১বাফার", [], G.num(0))]
    return prog


def p2_alias_probe(k, records=False):
    """P2 that keeps `k` fresh containers alive at once, changes each one differently and prints them all: two fresh
    containers sharing one arena slot show up as equal contents"""
    names = [f"প২তাজা{i}" for i in range(k)]
    mk = (lambda i: G.rec((G.s("ক"), G.num(i)))) if records else (lambda i: G.lst(G.num(i)))
    prog = [("decl", n, mk(i)) for i, n in enumerate(names)]
    for i, n in enumerate(names):
        if records:
            prog.append(("assign", n, [G.s("খ")], G.num(100 + i)))
        else:
            prog.append(("expr", G.call("_লিস্ট-পুশ", G.var(n), G.num(100 + i))))
    prog += [("print", G.var(n)) for n in names]
    return prog


def compose_oracle(case, impl, model):
    impl, model = impl[-3:], model[-3:]          # set-up lines (files of imported modules) may come first
    a1, a2, a12 = (C.RunAns(x) for x in impl)
    if a1.kind != "ok":
        return []   # P1 must terminate normally for the property to speak
    probs = []
    m1, m2 = C.RunAns(model[0]), C.RunAns(model[1])
    same = a12.out == (a1.out or "") + (a2.out or "")
    if not same and m1.out is not None and m2.out is not None:
        # record entries print in an unspecified order: compare up to their permutation, using the model's template
        tpl = m1.out + m2.out
        same = C.match_template(tpl, a12.out or "") and C.match_template(m1.out, a1.out or "") and C.match_template(m2.out, a2.out or "")
    if not same:
        probs.append(f"output of P1;P2 {a12.out!r} is not output(P1) ++ output(P2) = {(a1.out or '') + (a2.out or '')!r}")
    if a12.kind != a2.kind or (a2.kind == "err" and a12.err_class() != a2.err_class()):
        probs.append(f"P1;P2 ends with {a12.status[:2]}, P2 alone ends with {a2.status[:2]}")
    elif a2.kind == "err" and a2.err_line() and a12.err_line() != a2.err_line() + case.info["p1_lines"]:
        probs.append(f"error line of P1;P2 is {a12.err_line()}, expected {a2.err_line()} + {case.info['p1_lines']}")
    return probs


def cases(rng, tier, stats):
    out = []
    P1, P2 = p1_pool(), p2_pool()
    pairs = [(a, b) for a in P1 for b in P2]
    n_rand = 6000 if tier == "thorough" else 250
    for i in range(n_rand):
        r = rng.fork(f"p{i}")
        g1 = proggen.ProgGen(r.fork("a"), max_depth=3, prefix="এক")
        g2 = proggen.ProgGen(r.fork("b"), max_depth=3, prefix="দুই")
        a = g1.program(r.range(2, 7)) if r.chance(0.6) else r.choice(P1)
        b = g2.program(r.range(2, 7)) if r.chance(0.6) else r.choice(P2)
        pairs.append((a, b))
    # residue in the allocation counter: P1 leaves it just below the collection threshold, P2 alone stays far below it
    for units in ((900, 960, 980, 996) if tier != "thorough" else range(700, 1000, 12)):
        for m in (20, 40):
            for shape in range(3):
                pairs.append((p1_counter_residue(units), p2_temporaries(m, shape)))
    # residue in the free list: P1 goes through two collections with a survivor that dies in between
    for rows in ((5, 7, 9) if tier != "thorough" else range(3, 12)):
        for keep in range(rows):
            for size in ((600,) if tier != "thorough" else (520, 600, 680)):
                pairs.append((p1_free_list_residue(rows, keep, size), p2_alias_probe(rows + 1)))
    pairs.append((p1_free_list_residue(7, 3, 600), p2_alias_probe(6, records=True)))
    skipped = 0
    for a, b in pairs:
        s1, s2 = G.source(a, "lines"), G.source(b, "lines")
        e1 = structsem.run(a)
        if e1[1] != "ok":
            skipped += 1
            continue
        lines = [run_req(s1, spec=1), run_req(s2, spec=1), run_req(s1 + s2, spec=1)]
        out.append(C.Case("compose", lines, cmp_run(line=True), compose_oracle, info={"p1": s1, "p2": s2, "p1_lines": s1.count("\n")}))
    # P1 written with literals and comments that span lines (contents ending in / starting with a line break, blank lines,
    # CR LF): the line count of P1 is its number of line breaks, P2's error line moves by exactly that
    show, name = "\u09a6\u09c7\u0996\u09be\u0993", "\u09a8\u09be\u09ae"
    nt = 0
    for cnt in ["\u0995\n", "\n", "\u0995\n\u0996\n", "\u0995\r\n", "\u0995\n\n", "\u0995\n\u0996", "\n\u0995", "\u0995\r", "\u0995\n----\n"]:
        for form in range(4):
            if form == 0:
                s1 = name + ' \u09aa\u09e7\u09b6 = "' + cnt + '";\n_' + show + " \u09aa\u09e7\u09b6;\n"
            elif form == 1:
                s1 = "#" + cnt + "#\n" + show + ' "\u09aa\u09e7";\n'
            elif form == 2:
                s1 = "_" + show + ' "' + cnt + '" + "' + cnt + '";\n'
            else:
                s1 = name + ' \u09aa\u09e7\u09a4 = ["' + cnt + '", "' + cnt + '"]; #' + cnt + "#\n" + show + " \u09aa\u09e7\u09a4;\n"
            for b in (P2[4], P2[1]):
                s2 = G.source(b, "lines")
                out.append(C.Case("compose", [run_req(s1, spec=1), run_req(s2, spec=1), run_req(s1 + s2, spec=1)], cmp_run(line=True), compose_oracle,
                                  info={"p1": s1, "p2": s2, "p1_lines": s1.count("\n"), "family": "multiline-literal"}))
                nt += 1
    stats["multiline_literal_pairs"] = nt
    # fragments that import modules: the same file under two aliases (P1 under one, P2 under the other), two files, a shared helper
    # reached from both — every import runs the module's top level again under its own alias; P2's alias sees nothing of P1's
    modsrc = 'নাম গণনা = ০;\nফাং বাড়াও(ধাপ) {\n গণনা = গণনা + ধাপ;\n} ফেরত গণনা;\nদেখাও "মডিউল চালু";\n'
    helper = 'মডিউল ভিতর = "ganit.pakhi";\nফাং দুইবার(ধাপ) {\n ভিতর/বাড়াও(ধাপ);\n} ফেরত ভিতর/বাড়াও(ধাপ);\n'
    def frag(alias, path, fn, k):
        return (f'মডিউল {alias} = "{path}";\nদেখাও {alias}/{fn}({k});\nদেখাও {alias}/{fn}({k} + ১);\n'
                + (f'দেখাও {alias}/গণনা;\n' if fn == "বাড়াও" else f'দেখাও {alias}/ভিতর/গণনা;\n'))
    nm = 0
    for (al1, p1, f1), (al2, p2, f2) in [(("প্রথম", "ganit.pakhi", "বাড়াও"), ("দ্বিতীয়", "ganit.pakhi", "বাড়াও")), (("প্রথম", "ganit.pakhi", "বাড়াও"), ("দ্বিতীয়", "lib/ganit.pakhi", "বাড়াও")),
                                           (("প্রথম", "helper.pakhi", "দুইবার"), ("দ্বিতীয়", "ganit.pakhi", "বাড়াও")), (("প্রথম", "helper.pakhi", "দুইবার"), ("দ্বিতীয়", "helper.pakhi", "দুইবার")),
                                           (("ক", "ganit.pakhi", "বাড়াও"), ("কক", "ganit.pakhi", "বাড়াও"))]:
        for tail in ("", 'নাম প২ত = [১];\nদেখাও প২ত[৫];\n'):
            s1, s2 = frag(al1, p1, f1, "২"), frag(al2, p2, f2, "৭") + tail
            lines = ["RESET"] + ["FILE " + C.hx("@ROOT@/" + pth) + " " + C.hx(src) for pth, src in (("ganit.pakhi", modsrc), ("lib/ganit.pakhi", modsrc.replace("চালু", "চালু ২")), ("helper.pakhi", helper))]
            lines += [run_req(s1), run_req(s2), run_req(s1 + s2)]
            out.append(C.Case("compose-modules", lines, cmp_run(line=True), compose_oracle, info={"p1": s1, "p2": s2, "p1_lines": s1.count("\n")}))
            nm += 1
    stats["module_pairs"] = nm
    # the one residue of P1's control flow that a P2 can observe: an else-less conditional whose branch ran leaves its
    # flag on the interpreter's stack for ever; a P2 that *begins* with a stray `অথবা` (alone: "অথবা without যদি") is then
    # taken for the else of that conditional and skipped.  KNOWN-FINDING C19-stray-else, identified by this input
    k1 = 'যদি সত্য {\n}\nদেখাও "ক";\n'
    k2 = 'অথবা {\n দেখাও "খ";\n}\nদেখাও "গ";\n'
    out.append(C.Case("C19-stray-else", [run_req(k1), run_req(k2), run_req(k1 + k2)], cmp_run(line=True), compose_oracle,
                      info={"p1": k1, "p2": k2, "p1_lines": k1.count("\n")}))
    stats["pairs"] = len(out)
    stats["pairs_skipped_p1_fails"] = skipped
    return out


def fix_root(cases_, root):
    for c in cases_:
        c.lines = [l if not l.startswith("FILE ") else "FILE " + C.hx(C.unhx(l.split(" ")[1]).replace("@ROOT@", root)) + " " + l.split(" ")[2] for l in c.lines]
