"""C20 — file and console built-ins agree with the file system and stdin."""
import os, subprocess
import common as C
import gen as G
from props.base import run_req, cmp_run

RULE = ("random sequences of 3..12 file-system built-in calls over a tree of 7 paths (nested directories) in a fresh scratch "
        "directory (30 % of the paths respelled with name/.. detours through directories, files and missing names, '.', '//' "
        "and trailing slashes: the kernel's walk decides, not the text), with contents empty / multi-line / Bangla / 64 KB ASCII / 9 KB and 180 KB Bangla (multi-byte characters across every buffer boundary), pre-existing files, directories, a file with invalid "
        "UTF-8 content and a directory entry with an invalid UTF-8 name; every result is printed; failing calls (missing path, "
        "file where a directory is expected and vice versa, unreadable content) are generated on purpose. Oracle: a Python "
        "model of the abstract file tree predicts every printed line and the error; the final real directory listing "
        "(paths, kinds, contents) is compared with the Lean model's final tree. _রিড-লাইন is exercised through the command "
        "line tool with piped stdin (LF, CRLF, trailing blanks, no final newline, empty input). "
        "Non-trivial: the sequence contains a failing call or a directory operation."
        ' File contents with CR LF, lone CR, BOM, look-alike spellings; file and directory names outside ASCII, with a blank, case twins.')
ASSUMPTIONS = ["the operating system's file system is modelled by an abstract tree (DESIGN §4 C20): agreement of that model "
               "with the real file system is established by this correspondence check, not by proof",
               "paths are absolute paths below the scratch root, written clean or with `name/..` detours, `.` components, "
               "doubled and trailing slashes (30 % of the calls); no relative paths, no symlinks, no permissions"]
def canon_listing(out):
    """directory entries come in unspecified order: sort the fields of the joined-names lines"""
    return "\n".join("|".join(sorted(l.split("|"))) if "|" in l else l for l in out.split("\n"))


default_compare = lambda m, i: C.compare_run(m, i, line=True, extra=("fs",), canon=canon_listing)
REL = ["a.txt", "b.txt", "d1", "d1/c.txt", "d1/d2", "d1/d2/e.txt", "d3/d4/f.txt",
       # names outside ASCII, with a blank, look-alike spellings, upper / lower case twins
       "\u0996\u09be\u09a4\u09be.txt", "d1/\u09a8\u09cb\u099f \u09e7.txt", "\u09a4\u09a5\u09cd\u09af", "\u09a4\u09a5\u09cd\u09af/\u0995.txt",
       "\u0986\u09df.txt", "\u0986\u09af\u09bc.txt", "A.txt"]
CONTENTS = ["", "এক লাইন", "লাইন ১\nলাইন ২\n", "ascii text", "x" * 65536, "শেষে ফাঁকা  \n", "ট্যাব\tx",
            "ক" * 3000, "a" + "খ" * 2731 + "\n", "পাখি ভাষা " * 7000,   # long non-ASCII text: multi-byte characters at every offset mod 8192
            # line-end conventions, BOM, look-alike spellings: a file holds the written text byte for byte
            "\u0995\r\n\u0996\r\n", "\r\n", "\r", "\u0995\r\u0996\n\r", "\ufeff\u0995", "\u0986\u09df \u0986\u09af\u09bc \u200d\u200c.", " \n\n", "\u0995\n\n\n"]


class Fs:
    def __init__(self, root):
        self.root = root
        self.nodes = {root: ("d", None)}     # path -> ('d', None) | ('f', text | None)
        self.badname_dirs = set()

    def parent(self, p):
        return p.rsplit("/", 1)[0]

    def is_dir(self, p):
        return self.nodes.get(p, ("x",))[0] == "d"

    def children(self, p):
        return [q for q in self.nodes if q != p and self.parent(q) == p]

    def resolve(self, text):
        """the kernel's walk of a path text below the scratch root: every component walked through must be an existing
        directory, `..` goes up, `.` and empty components stay, a trailing slash demands a directory; None = the walk fails"""
        assert text.startswith(self.root)
        raw = text[len(self.root):].split("/")
        comps = [c for c in raw if c not in ("", ".")]
        wants_dir = len(raw) > 1 and raw[-1] in ("", ".")
        cur = []
        for i, c in enumerate(comps):
            if c == "..":
                assert cur, "generator never climbs above the scratch root"
                cur.pop()
            elif i == len(comps) - 1:
                cur.append(c)
            elif self.is_dir(self.root + "".join("/" + x for x in cur + [c])):
                cur.append(c)
            else:
                return None
        q = self.root + "".join("/" + x for x in cur)
        if wants_dir and not self.is_dir(q):
            return None
        return q

    def norm_dots(self, text):
        raw = text[len(self.root):].split("/")
        return self.root + "".join("/" + c for c in raw if c not in ("", "."))


def respell(r, k, p, root):
    """another spelling of the clean path `p`: `name/..` detours (through an existing directory, a file, or nothing),
    `.` components, doubled slashes, a trailing slash"""
    comps = p[len(root) + 1:].split("/") if len(p) > len(root) else []
    kinds = ["dot", "slash"] if k == "mkdir" else ["dotdot", "dotdot", "dot", "slash", "trail"]
    if k == "rmdir":
        kinds.remove("trail")
    t = r.choice(kinds)
    i = r.below(len(comps) + 1) if comps else 0
    if t == "dotdot":
        i = r.below(len(comps)) if comps else 0
        # a sibling name at that level: directories, files and names that never exist
        level = "/".join(comps[:i])
        cands = {"": ["d1", "d3", "a.txt", "b.txt", "nope"], "d1": ["d2", "c.txt", "nope"], "d1/d2": ["e.txt", "nope"], "d3": ["d4", "nope"], "d3/d4": ["f.txt", "nope"]}.get(level, ["nope"])
        comps = comps[:i] + [r.choice(cands), ".."] + comps[i:]
    elif t == "dot":
        comps = comps[:i] + ["."] + comps[i:] if i < len(comps) else comps   # never a final '.'
        if "." not in comps:
            comps = ["."] + comps
    elif t == "slash":
        comps = comps[:i] + [""] + comps[i:] if i < len(comps) else [""] + comps
    else:
        comps = comps + [""]
    return root + "".join("/" + c for c in comps)


def simulate(fs, ops):
    """expected output lines and whether (and where) the program stops"""
    out = []
    for k, op in enumerate(ops):
        name, p = op[0], op[1]
        p = fs.norm_dots(p) if name == "mkdir" else fs.resolve(p)
        if p is None:
            return out, k
        if name == "write":
            if not fs.is_dir(fs.parent(p)) or fs.is_dir(p):
                return out, k
            fs.nodes[p] = ("f", op[2]); out.append("সত্য")
        elif name == "read":
            n = fs.nodes.get(p)
            if not n or n[0] != "f" or n[1] is None:
                return out, k
            out.append(n[1])
        elif name == "delete":
            n = fs.nodes.get(p)
            if not n or n[0] != "f":
                return out, k
            del fs.nodes[p]; out.append("সত্য")
        elif name == "mkdir":
            parts = p[len(fs.root) + 1:].split("/")
            cur = fs.root
            for part in parts:
                cur += "/" + part
                n = fs.nodes.get(cur)
                if n and n[0] == "f":
                    return out, k
            cur = fs.root
            for part in parts:
                cur += "/" + part
                fs.nodes.setdefault(cur, ("d", None))
            out.append("সত্য")
        elif name == "readdir":
            if not fs.is_dir(p) or p in fs.badname_dirs:
                return out, k
            names = sorted(q.rsplit("/", 1)[1] for q in fs.children(p))
            out.append(("SET", names))
        elif name == "rmdir":
            if not fs.is_dir(p) or p == fs.root:
                return out, k
            for q in list(fs.nodes):
                if q == p or q.startswith(p + "/"):
                    del fs.nodes[q]
            fs.badname_dirs.discard(p)
            out.append("সত্য")
        elif name == "kind":
            n = fs.nodes.get(p)
            if not n:
                return out, k
            out.append("ফাইল" if n[0] == "f" else "ডাইরেক্টরি")
    return out, None


FN = {"write": "_রাইট-ফাইল", "read": "_রিড-ফাইল", "delete": "_ডিলিট-ফাইল", "mkdir": "_নতুন-ডাইরেক্টরি", "readdir": "_রিড-ডাইরেক্টরি", "rmdir": "_ডিলিট-ডাইরেক্টরি", "kind": "_ফাইল-নাকি-ডাইরেক্টরি"}


def program(ops):
    prog = []
    for op in ops:
        args = [G.s(op[1])] + ([G.s(op[2])] if op[0] == "write" else [])
        if op[0] == "readdir":
            # order is unspecified: print length and membership of every expected candidate name
            prog.append(("decl", "নামগুলো", G.call(FN[op[0]], *args)))
            prog.append(("print", G.call("_লিস্ট-লেন", G.var("নামগুলো"))))
            prog.append(("print", G.call("_স্ট্রিং-জয়েন", G.var("নামগুলো"), G.s("|"))))
        else:
            prog.append(("print", G.call(FN[op[0]], *args)))
    prog.append(("print", G.s("শেষ")))
    return prog


def oracle(case, impl, model):
    a = C.RunAns(impl[case.info["run_index"]])
    exp, stop = case.info["expected"], case.info["stops_at"]
    if a.kind in ("abort", "panic", "malformed"):
        return [f"process-level failure instead of a Pakhi error: {a.raw[:140]}"]
    lines = (a.out or "")
    # rebuild expected text; directory listings are compared as sets
    pos = 0
    for item in exp:
        if isinstance(item, tuple):
            nl = lines.find("\n", pos)
            cnt = lines[pos:nl]
            nl2 = lines.find("\n", nl + 1)
            names = lines[nl + 1:nl2]
            got = sorted(names.split("|")) if names != "" or item[1] == [""] else []
            if cnt != G.bn_digits(str(len(item[1]))) or got != item[1]:
                return [f"_রিড-ডাইরেক্টরি returned {cnt} names {got}, the directory holds {item[1]}"]
            pos = nl2 + 1
        else:
            t = item + "\n"
            if not lines.startswith(t, pos):
                return [f"expected {item[:60]!r} at output offset {pos}, got {lines[pos:pos + 80]!r}"]
            pos += len(t)
    if stop is None:
        if a.kind != "ok" or lines[pos:] != "শেষ\n":
            return [f"all calls are valid but the program ended with {' '.join(a.status[:3])} / trailing output {lines[pos:pos + 60]!r}"]
    else:
        if a.kind != "err" or a.err_class() != "runtime":
            return [f"call {stop} must fail with a runtime error, program ended with {' '.join(a.status[:3])}"]
        if lines[pos:] != "":
            return [f"output after the failing call: {lines[pos:pos + 60]!r}"]
        if a.err_line() != case.info["stop_line"]:
            return [f"error line {a.err_line()}, the failing call is on line {case.info['stop_line']}"]
    return []


def cases(rng, tier, stats):
    out = []
    n = 5000 if tier == "thorough" else 300
    opsh = {}
    fails = 0
    for i in range(n):
        r = rng.fork(f"f{i}")
        root = "@ROOT@"
        fs = Fs(root)
        lines = ["RESET"]
        # pre-existing tree
        for rel in REL:
            if r.chance(0.3):
                p = root + "/" + rel
                if "." in rel.rsplit("/", 1)[-1]:
                    par = p.rsplit("/", 1)[0]
                    cur = root
                    okp = True
                    for part in rel.split("/")[:-1]:
                        cur += "/" + part
                        if fs.nodes.get(cur, ("d",))[0] == "f":
                            okp = False
                    if not okp:
                        continue
                    cur = root
                    for part in rel.split("/")[:-1]:
                        cur += "/" + part
                        fs.nodes.setdefault(cur, ("d", None))
                    if r.chance(0.15):
                        fs.nodes[p] = ("f", None); lines.append("BADFILE " + C.hx(p))
                    else:
                        c = r.choice(CONTENTS[:4]); fs.nodes[p] = ("f", c); lines.append("FILE " + C.hx(p) + " " + C.hx(c))
                else:
                    cur = root
                    okp = True
                    for part in rel.split("/"):
                        cur += "/" + part
                        if fs.nodes.get(cur, ("d",))[0] == "f":
                            okp = False
                    if okp:
                        cur = root
                        for part in rel.split("/"):
                            cur += "/" + part
                            fs.nodes.setdefault(cur, ("d", None))
                        lines.append("DIR " + C.hx(p))
        if r.chance(0.1):
            d = root + "/d1"
            if fs.is_dir(d) or d not in fs.nodes:
                fs.nodes.setdefault(d, ("d", None))
                fs.badname_dirs.add(d)
                lines.append("DIR " + C.hx(d))
                lines.append("BADNAME " + C.hx(d + "/x"))
        import copy
        ops = []
        cur = copy.deepcopy(fs)
        for _ in range(r.range(3, 12)):
            # mostly calls that succeed in the current tree (so that sequences get long), a failing one now and then
            want_valid = r.chance(0.92)
            for attempt in range(8):
                k = r.choice(["write", "write", "read", "read", "delete", "mkdir", "readdir", "rmdir", "kind", "kind"])
                p = root + "/" + r.choice(REL)
                if k == "readdir" and r.chance(0.2):
                    p = root
                if r.chance(0.3):
                    p = respell(r, k, p, root)
                op = (k, p, r.choice(CONTENTS)) if k == "write" else (k, p)
                trial = copy.deepcopy(cur)
                _, st = simulate(trial, [op])
                if (st is None) == want_valid:
                    break
            if p != cur.norm_dots(p) or ".." in p:
                opsh["respelled"] = opsh.get("respelled", 0) + 1
            ops.append(op)
            opsh[k] = opsh.get(k, 0) + 1
            if st is not None:
                break
            cur = trial
        import copy
        fs2 = copy.deepcopy(fs)
        exp, stop = simulate(fs2, ops)
        if stop is not None:
            ops = ops[: stop + 1]
            fails += 1
        prog = program(ops)
        src = G.source(prog, "lines")
        stop_line = None
        if stop is not None:
            stop_line = G.source(program(ops[:stop]), "lines").count("\n")   # lines before the failing call, incl. 'শেষ' → same count + 0
            # program(ops[:stop]) ends with the sentinel line, which takes the place of the failing call's first line
        lines.append(run_req(src, fs=1))
        nt = stop is not None or any(o[0] in ("mkdir", "rmdir", "readdir") for o in ops)
        out.append(C.Case("fs-ops", lines, default_compare, oracle, info={"ops": [(o[0], o[1][6:]) for o in ops], "expected": exp, "stops_at": stop, "stop_line": stop_line,
                                                                           "run_index": len(lines) - 1}, nontrivial=nt))
    # names that share a stem: writing `report.txt` must not touch `report.tmp`, `report`, `report.txt.bak`, `report.txt~` … (files or
    # directories) — a write touches exactly the path it is given; each sibling is written first, the target second, then everything
    # is read back and the directory is listed (the `fs=1` listing is compared with the model's tree as well)
    sibs = ["report.tmp", "report", "report.txt.bak", "report.txt~", "report.bak", ".report.txt", "report.txt.tmp", "report.TXT", "repor", "report.t"]
    nsb = 0
    for sib in sibs:
        for kind in ("file", "dir"):
            for order in (0, 1):
                d = "@ROOT@/কাজ"
                mk = [("expr", G.call(FN["mkdir"], G.s(d)))]
                a = [("expr", G.call(FN["write"], G.s(f"{d}/{sib}"), G.s("পাশের")))] if kind == "file" else [("expr", G.call(FN["mkdir"], G.s(f"{d}/{sib}")))]
                b = [("expr", G.call(FN["write"], G.s(f"{d}/report.txt"), G.s("মূল")))]
                body = mk + (a + b if order == 0 else b + a) + [("expr", G.call(FN["write"], G.s(f"{d}/report.txt"), G.s("মূল-২"))),
                        ("print", G.call(FN["read"], G.s(f"{d}/report.txt"))),
                        ("print", G.call(FN["kind"], G.s(f"{d}/{sib}"))),
                        ("print", G.call("_লিস্ট-লেন", G.call(FN["readdir"], G.s(d))))]
                if kind == "file":
                    body.append(("print", G.call(FN["read"], G.s(f"{d}/{sib}"))))
                src = G.source(body + [("print", G.s("শেষ"))], "lines")
                lines = ["RESET", run_req(src, fs=1)]
                out.append(C.Case("stem-siblings", lines, default_compare, lambda case, impl, model: [], info={"src": src[-300:], "sibling": sib, "kind": kind, "run_index": 1, "expected": []}))
                nsb += 1
    stats["stem_siblings"] = nsb
    # one file under two spellings of its path (`x`, `./x`, `sub/../x`, `//x`): read through A, overwrite / delete through B, read
    # through A again — a file is the thing on disk, not the text of its path (nothing may remember contents by spelling)
    nsp = 0
    for ai, bi in [(0, 1), (0, 2), (0, 3), (1, 0), (2, 0), (2, 1), (3, 2), (0, 0)]:
        for second in ("write", "delete", "rmdir-parent"):
            d = f"@ROOT@/sp{nsp}"
            sp = [f"{d}/x.txt", f"{d}/./x.txt", f"{d}/sub/../x.txt", f"{d}//x.txt"]
            A, B = sp[ai], sp[bi]
            body = [("expr", G.call(FN["mkdir"], G.s(d))), ("expr", G.call(FN["mkdir"], G.s(f"{d}/sub"))),
                    ("expr", G.call(FN["write"], G.s(A), G.s("এক"))), ("print", G.call(FN["read"], G.s(A))), ("print", G.call(FN["read"], G.s(A)))]
            if second == "write":
                body += [("expr", G.call(FN["write"], G.s(B), G.s("দুই"))), ("print", G.call(FN["read"], G.s(A))), ("print", G.call(FN["read"], G.s(B)))]
            elif second == "delete":
                body += [("expr", G.call(FN["delete"], G.s(B))), ("print", G.s("মুছে ফেলার পরে")), ("print", G.call(FN["read"], G.s(A))), ("print", G.s("পৌঁছানো উচিত না"))]
            else:
                body += [("expr", G.call(FN["rmdir"], G.s(d))), ("print", G.s("মুছে ফেলার পরে")), ("print", G.call(FN["read"], G.s(A))), ("print", G.s("পৌঁছানো উচিত না"))]
            src = G.source(body + [("print", G.s("শেষ"))], "lines")
            out.append(C.Case("path-spellings", ["RESET", run_req(src, fs=1)], default_compare, lambda case, impl, model: [],
                              info={"src": src[-300:], "A": A, "B": B, "second": second, "run_index": 1, "expected": []}))
            nsp += 1
    stats["path_spellings"] = nsp
    # wrong argument shapes, systematically: every argument tuple of length 0..3 over {path of a file, path of a directory,
    # path below a missing directory, number, list} for the seven file-system built-ins, on a fixed small tree
    import itertools
    pool = [G.s("@ROOT@/a.txt"), G.s("@ROOT@/d1"), G.s("@ROOT@/নেই/লেখা"), G.num(3), G.lst(G.s("@ROOT@/a.txt"))]   # every string is a path below the scratch root: no call can touch anything else
    nt = 0
    for fn in FN.values():
        for ln in range(0, 4):
            for args in itertools.product(pool, repeat=ln):
                if tier != "thorough" and ln == 3 and (nt % 4) != 0:
                    nt += 1
                    continue
                src = G.source([("print", G.s("আগে")), ("print", G.call(fn, *args)), ("print", G.s("পরে"))], "lines")
                lines = ["RESET", "FILE " + C.hx("@ROOT@/a.txt") + " " + C.hx("ক"), "DIR " + C.hx("@ROOT@/d1"), run_req(src, fs=1)]
                out.append(C.Case("argument-tuples", lines, default_compare, lambda case, impl, model: [], info={"src": src, "run_index": 3, "expected": []}))
                nt += 1
    stats["argument_tuples"] = nt
    stats["sequences"] = n
    stats["operations"] = opsh
    stats["sequences_with_failing_call"] = fails
    return out


def fix_root(cases_, root):
    for c in cases_:
        new = []
        for l in c.lines:
            parts = l.split(" ")
            if parts[0] in ("FILE", "DIR", "BADFILE", "BADNAME"):
                parts[1] = C.hx(C.unhx(parts[1]).replace("@ROOT@", root))
                new.append(" ".join(parts))
            elif parts[0] == "RUN":
                parts[1] = C.hx(C.unhx(parts[1]).replace("@ROOT@", root))
                new.append(" ".join(parts))
            else:
                new.append(l)
        c.lines = new
        c.info["expected"] = [(x[0], x[1]) if isinstance(x, tuple) else x for x in c.info["expected"]]


def extra_checks(rng, tier, stats, root):
    probs = []
    binp, log = C.build_pakhi_binary()
    if not binp:
        return [("proof", "cli-build", "the pakhi binary does not build: " + log[-300:], {})]
    d = os.path.join(root, "cli")
    os.makedirs(d, exist_ok=True)
    p = os.path.join(d, "rl.pakhi")
    open(p, "w", encoding="utf-8").write('নাম ক = _রিড-লাইন();\nনাম খ = _রিড-লাইন();\nনাম গ = _রিড-লাইন();\n_দেখাও "<"; _দেখাও ক; _দেখাও "|"; _দেখাও খ; _দেখাও "|"; _দেখাও গ; দেখাও ">";\n')
    tests = [("এক\nদুই\nতিন\n", "<এক|দুই|তিন>\n"), ("এক\r\nদুই  \t\r\nতিন", "<এক|দুই|তিন>\n"), ("", "<||>\n"), ("  সামনে ফাঁকা\n\nx \n", "<  সামনে ফাঁকা||x>\n"),
             ("a\n", "<a||>\n")]
    for inp, want in tests:
        r = subprocess.run([binp, p], input=inp.encode("utf-8"), stdout=subprocess.PIPE, stderr=subprocess.PIPE, timeout=20)
        so = r.stdout.decode("utf-8", "replace")
        # the model's answer for the same input
        src = open(p, encoding="utf-8").read()
        m = C.RunAns(C.run_model(["RUN " + C.hx(src) + " stdin=" + C.hx(inp)])[0])
        if r.returncode != 0 or so != want:
            probs.append(("impl-vs-oracle", "read-line", f"stdin {inp!r}: printed {so!r} (exit {r.returncode}), expected {want!r}", {"stdin": inp}))
        if m.out != want:
            probs.append(("model-vs-impl", "read-line-model", f"stdin {inp!r}: model prints {m.out!r}, expected {want!r}", {"stdin": inp}))
    stats["read_line_runs"] = len(tests)
    return probs
