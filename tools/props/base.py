"""Helpers shared by the run-based property checks."""
import common as C
import gen as G
import structsem


def run_req(src, **kw):
    return "RUN " + C.hx(src) + "".join(f" {k}={v}" for k, v in kw.items())


def cmp_run(line=False, file=False, msg=False, extra=()):
    return lambda m, i: C.compare_run(m, i, line=line, file=file, msg=msg, extra=extra)


def struct_oracle(case, impl, model):
    """implementation vs the structured big-step semantics of the program tree"""
    exp = case.info.get("expect")
    if exp is None:
        return []
    out, st = exp
    if st in ("steps", "toobig"):
        return []
    a = C.RunAns(impl[case.info.get("run_index", 0)])
    if a.kind in ("abort", "panic", "malformed"):
        return [f"implementation {a.raw[:160]}"]
    if not C.match_template(out, a.out or ""):
        return [f"the program tree denotes output {C.strip_markers(out)!r}, implementation printed {a.out!r}"]
    if st == "ok":
        if a.kind != "ok":
            return [f"the program tree runs to completion, implementation ended with {' '.join(a.status[:3])}"]
    else:
        if a.kind != "err":
            return [f"the program tree stops with a {st[1]} error, implementation ended with {a.kind}"]
        if case.info.get("check_class", True) and a.err_class() != st[1]:
            return [f"error class {a.err_class()}, the tree denotes {st[1]}"]
        if st[2] is not None and a.err_msg() != st[2]:
            return [f"_এরর message {a.err_msg()!r}, expected {st[2]!r}"]
    return []


def prog_case(name, prog, rng=None, mode="lines", opts=None, info=None, line=False, nontrivial=True, xp=None, check_class=True):
    # a deterministic third of the programs is written in one of the other styles (trailing commas in list / record literals,
    # comment blocks between statements — also empty ones —, parenthesised conditions): same tree, same meaning
    import hashlib
    h = hashlib.sha256(repr(prog).encode("utf-8")).digest()[0]
    if not line and h % 3 == 0:
        with G.styled(trailing_comma=bool(h & 4), comments=bool(h & 8), paren_cond=bool(h & 16)):
            src = G.source(prog, mode, rng, xp)
    else:
        src = G.source(prog, mode, rng, xp)
    expect = structsem.run(prog)
    inf = {"src": src, "expect": expect, "check_class": check_class}
    if expect[1] == "toobig":
        inf["skip"] = True      # strings / lists grow beyond the oracle's size budget (e.g. doubling in a loop): not run at all (counted)
    inf.update(info or {})
    o = dict(opts or {})
    o.setdefault("spec", 1)   # also ask the model for unflatten + the Lean structured semantics (Spec/Sem.lean)
    return C.Case(name, [run_req(src, **o)], cmp_run(line=line), struct_oracle, info=inf, nontrivial=nontrivial)
