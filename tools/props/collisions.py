"""One name in two roles: a family of programs shared by the run-based checks.

Every scenario binds one name more than once — a global function and an inner function / parameter / local of the same name, a
parameter named like a global or like its own function, a block local named like an enclosing variable, a user name equal to a
built-in's name, a name re-declared in the same scope with another kind of value — and then reads, writes, calls, prints, indexes
and tests it.  Pakhi resolves every use of a name the same way: the innermost open scope that declares it (calls of built-in names
go to the built-in).  Oracle: the structured semantics of the tree, the Lean model, the Lean structured semantics."""
import gen as G
from props.base import prog_case

V, N, S, B = G.var, G.num, G.s, G.b


def scenarios():
    sc = {}
    dbl = ("func", "দ্বিগুণ", ["x"], [], G.bin_("*", V("x"), N(2)))
    add100 = ("func", "রূপ", ["x"], [], G.bin_("+", V("x"), N(100)))
    # -- calls: a global function and an inner binding of the same name -----------------------------------------------------
    sc["param-named-like-global-function"] = [dbl, add100, ("func", "প্রয়োগ", ["রূপ", "v"], [], G.call("রূপ", V("v"))),
                                              ("print", G.call("প্রয়োগ", V("দ্বিগুণ"), N(5))), ("print", G.call("রূপ", N(5))), ("print", G.call("প্রয়োগ", V("রূপ"), N(5)))]
    sc["nested-function-named-like-global"] = [add100, ("func", "বাইরে", ["v"], [("func", "রূপ", ["x"], [], G.bin_("*", V("x"), N(3))), ("print", G.call("রূপ", V("v")))], G.call("রূপ", G.bin_("+", V("v"), N(1)))),
                                               ("print", G.call("বাইরে", N(4))), ("print", G.call("রূপ", N(4)))]
    sc["block-function-named-like-global"] = [add100, ("block", [("func", "রূপ", ["x"], [], G.bin_("-", V("x"), N(1))), ("print", G.call("রূপ", N(10)))]),
                                              ("print", G.call("রূপ", N(10))), ("decl", "গ", N(0)),
                                              ("loop", [("assign", "গ", [], G.bin_("+", V("গ"), N(1))), ("if", [(G.bin_(">", V("গ"), N(2)), [("break",)])], None),
                                                        ("func", "রূপ", ["x"], [], G.bin_("*", V("x"), V("গ"))), ("print", G.call("রূপ", N(7)))]), ("print", G.call("রূপ", N(7)))]
    sc["local-number-named-like-global-function"] = [add100, ("func", "কাজ", [], [("decl", "রূপ", N(5)), ("print", G.bin_("+", V("রূপ"), N(1))), ("print", G.call("রূপ", N(1)))], N(0)),
                                                     ("print", G.call("রূপ", N(1))), ("print", G.call("কাজ")), ("print", S("পৌঁছানো উচিত না"))]
    sc["function-redefined-with-other-arity"] = [("func", "যোগ", ["a", "b"], [], G.bin_("+", V("a"), V("b"))), ("print", G.call("যোগ", N(1), N(2), N(4))),
                                                 ("func", "যোগ", ["a", "b", "c"], [], G.bin_("+", G.bin_("+", V("a"), V("b")), V("c"))), ("print", G.call("যোগ", N(1), N(2), N(4))),
                                                 ("func", "ভিতরে", [], [("func", "যোগ", ["a"], [], V("a"))], G.call("যোগ", N(9), N(9))), ("print", G.call("ভিতরে")), ("print", G.call("যোগ", N(1), N(2), N(4)))]
    sc["parameter-named-like-own-function"] = [("func", "মোট", ["মোট"], [("print", V("মোট")), ("printn", V("মোট")), ("print", S("")), ("print", G.bin_("+", V("মোট"), N(0)))], G.lst(V("মোট"))),
                                               ("print", G.call("মোট", N(7))), ("print", G.call("মোট", G.lst(N(1), N(2)))), ("print", G.call("_টাইপ", V("মোট")))]
    sc["variable-then-function-same-name"] = [("decl", "ক", N(5)), ("print", V("ক")), ("func", "ক", [], [], N(6)), ("print", G.call("ক")), ("print", G.call("_টাইপ", V("ক"))),
                                              ("decl", "ক", G.lst(N(1))), ("print", V("ক")), ("decl", "ক", None), ("print", G.call("_টাইপ", V("ক")))]
    # -- conditions ------------------------------------------------------------------------------------------------------
    flagf = ("func", "যাচাই", ["পতাকা"], [("if", [(V("পতাকা"), [("print", S("প্রথম"))]), (G.un("!", V("পতাকা")), [("print", S("দ্বিতীয়"))])], [("print", S("শেষ"))])], V("পতাকা"))
    sc["bare-condition-shadowed"] = [("decl", "পতাকা", B(False)), flagf, ("print", G.call("যাচাই", B(True))), ("print", G.call("যাচাই", B(False))),
                                     ("block", [("decl", "পতাকা", B(True)), ("if", [(V("পতাকা"), [("print", S("ব্লক-সত্য"))])], [("print", S("ব্লক-মিথ্যা"))])]),
                                     ("if", [(V("পতাকা"), [("print", S("বাইরে-সত্য"))])], [("print", S("বাইরে-মিথ্যা"))]),
                                     ("decl", "গ", N(0)), ("loop", [("assign", "গ", [], G.bin_("+", V("গ"), N(1))), ("if", [(G.bin_(">", V("গ"), N(2)), [("break",)])], None),
                                                                  ("decl", "পতাকা", G.bin_("==", V("গ"), N(2))), ("if", [(V("পতাকা"), [("print", S("লুপ-সত্য"))])], [("print", S("লুপ-মিথ্যা"))])])]
    sc["bare-condition-outer-is-function"] = [("func", "ঠিক", [], [], B(True)), ("func", "দেখ", ["ঠিক"], [("if", [(V("ঠিক"), [("print", S("হ্যাঁ"))])], [("print", S("না"))])], N(0)),
                                              ("print", G.call("দেখ", B(True))), ("print", G.call("দেখ", B(False)))]
    # -- loops: a body local shadows an outer variable, read before its declaration, after a continue -----------------------------
    sc["loop-body-shadow-after-continue"] = [("decl", "লেবেল", S("সাধারণ")), ("decl", "মোট", N(0)), ("decl", "গ", N(0)),
                                             ("loop", [("assign", "গ", [], G.bin_("+", V("গ"), N(1))), ("if", [(G.bin_(">", V("গ"), N(5)), [("break",)])], None),
                                                       ("print", G.bin_("+", S("শুরু "), V("লেবেল"))), ("assign", "মোট", [], G.bin_("+", V("মোট"), V("গ"))),
                                                       ("decl", "লেবেল", G.bin_("+", S("আইটেম-"), G.call("_স্ট্রিং", V("গ")))), ("decl", "মোট", N(1000)),
                                                       ("if", [(G.bin_("==", G.bin_("%", V("গ"), N(2)), N(0)), [("continue",)])], None), ("print", V("লেবেল"))]),
                                             ("print", V("লেবেল")), ("print", V("মোট"))]
    # -- writes: plain and indexed assignment go to the innermost binding -------------------------------------------------------
    sc["indexed-write-to-parameter-named-like-global"] = [("decl", "ক", G.lst(N(1), N(2), N(3))), ("func", "বদল", ["ক"], [("assign", "ক", [N(0)], N(99)), ("print", V("ক"))], V("ক")),
                                                          ("print", G.call("বদল", G.lst(N(0), N(10), N(20)))), ("print", V("ক")),
                                                          ("block", [("decl", "ক", G.lst(N(7), N(8))), ("assign", "ক", [N(1)], N(0)), ("print", V("ক"))]), ("print", V("ক"))]
    sc["indexed-write-inner-too-short"] = [("decl", "ক", G.lst(N(1), N(2), N(3))), ("func", "বদল", ["ক"], [("print", S("আগে")), ("assign", "ক", [N(2)], N(5)), ("print", S("পৌঁছানো উচিত না"))], N(0)),
                                           ("print", G.call("বদল", G.lst(N(1)))), ("print", V("ক"))]
    sc["plain-write-to-parameter-named-like-global"] = [("decl", "জমা", G.lst()), ("decl", "গ", N(0)), ("func", "রাখ", ["জমা", "v"], [("assign", "জমা", [], G.lst(V("v"), V("জমা")))], G.call("_লিস্ট-লেন", V("জমা"))),
                                                        ("loop", [("assign", "গ", [], G.bin_("+", V("গ"), N(1))), ("if", [(G.bin_(">", V("গ"), N(3)), [("break",)])], None), ("print", G.call("রাখ", V("জমা"), V("গ")))]),
                                                        ("print", V("জমা")), ("print", G.call("_লিস্ট-লেন", V("জমা")))]
    sc["write-to-block-local-named-like-global"] = [("decl", "ক", N(1)), ("func", "কাজ", [], [("decl", "ক", N(10)), ("assign", "ক", [], G.bin_("+", V("ক"), N(1))), ("print", V("ক")),
                                                                                        ("block", [("decl", "ক", N(100)), ("assign", "ক", [], G.bin_("+", V("ক"), N(1))), ("print", V("ক"))]), ("print", V("ক"))], V("ক")),
                                                    ("print", G.call("কাজ")), ("print", V("ক"))]
    # -- re-declaration in the same scope while the old container is still referenced -------------------------------------------------
    sc["redeclare-container-with-alias"] = [("decl", "ক", G.lst(N(1), N(2), N(3))), ("decl", "খ", V("ক")), ("decl", "ক", G.lst(N(4))), ("decl", "গ", G.lst(N(7), N(8), N(9))),
                                            ("print", V("খ")), ("assign", "খ", [N(0)], N(0)), ("print", V("গ")), ("print", V("ক")),
                                            ("decl", "র", G.rec((S("মান"), N(1)))), ("decl", "তালিকা", G.lst(V("র"))), ("decl", "র", G.rec((S("মান"), N(2)))), ("decl", "নতুন", G.rec((S("মান"), N(50)))),
                                            ("print", G.idx(G.idx(V("তালিকা"), N(0)), S("মান"))), ("print", V("র")), ("decl", "সব", G.lst(G.lst(N(1), N(1)))), ("decl", "সব", G.lst(G.idx(V("সব"), N(0)))), ("decl", "অন্য", G.lst(N(3), N(33))), ("print", V("সব"))]
    # -- user names equal to built-in names ----------------------------------------------------------------------------------------
    for bn in ("_স্ট্রিং", "_সংখ্যা", "_টাইপ", "_লিস্ট-লেন"):
        arg = S("২.২৮") if bn == "_সংখ্যা" else N("2.28") if bn != "_লিস্ট-লেন" else G.lst(N(1), N(2))
        sc["user-function-named-" + bn] = [("print", G.call(bn, arg)), ("func", bn, ["x"], [], S("ব্যবহারকারীর")), ("print", G.call(bn, arg)), ("print", G.call("_টাইপ", V(bn))),
                                           ("func", "ভিতর", [bn], [], G.call(bn, arg)), ("print", G.call("ভিতর", V("ভিতর"))), ("print", G.call("ভিতর", N(3)))]
        sc["user-variable-named-" + bn] = [("decl", bn, N(5)), ("print", G.call(bn, arg)), ("print", G.bin_("+", V(bn), N(1))), ("assign", bn, [], G.lst(N(1))), ("print", V(bn)), ("print", G.call(bn, arg))]
    sc["record-key-equals-names"] = [("decl", "ক", N(1)), ("decl", "নথি", G.rec((S("ক"), N(2)), (S("_সংখ্যা"), N(3)), (S("নথি"), N(4)))), ("print", G.idx(V("নথি"), S("ক"))),
                                     ("print", G.idx(V("নথি"), S("_সংখ্যা"))), ("assign", "নথি", [S("ক")], G.bin_("+", V("ক"), N(10))), ("print", G.idx(V("নথি"), S("ক"))), ("print", V("ক")), ("print", G.idx(V("নথি"), S("নথি")))]
    return sc


def family(name="name-collision"):
    out = []
    for sname, prog in scenarios().items():
        for mode in ("lines", "oneline"):
            out.append(prog_case(name, prog, mode=mode, info={"scenario": sname, "mode": mode}))
    return out
