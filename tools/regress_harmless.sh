#!/bin/bash
# apply every stored behaviour-preserving refactoring in turn and run ALL quick checks: every one must stay quiet
cd /verif
for d in harmless/*/; do
  L=$(basename $d)
  cd /repo && git apply /verif/harmless/$L/patch.diff 2>/dev/null || { echo "$L: patch does not apply"; cd /verif; continue; }
  cd /verif
  bad=0
  for i in 01 02 03 04 05 06 07 08 09 10 11 12 13 14 15 16 17 18 19 20; do
    ./check C$i quick > /tmp/hreg-$L-C$i.log 2>&1 || { bad=$((bad+1)); echo "$L C$i ALARM: $(grep -m1 '^VIOLATION' /tmp/hreg-$L-C$i.log | cut -c1-160)"; }
  done
  echo "$L: $((20-bad))/20 checks quiet"
  git -C /repo checkout -- . ; git -C /repo clean -fdq src
done
git -C /repo status --short | head -3
rm -rf /verif/replays
