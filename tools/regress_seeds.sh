#!/bin/bash
# apply every stored seeded change in turn and run its own property's quick check
cd /verif
for d in seeded/*/; do
  L=$(basename $d); P=${L:0:3}
  cd /repo && git apply /verif/seeded/$L/patch.diff 2>/dev/null || { echo "$L: patch does not apply"; cd /verif; continue; }
  cd /verif
  ./check $P quick > /tmp/regress-$L.log 2>&1; rc=$?
  nv=$(grep -c '^VIOLATION' /tmp/regress-$L.log); nf=$(grep -c 'no-failing-input-found' /tmp/regress-$L.log)
  echo "$L -> $P exit=$rc violations=$nv without-input=$nf : $(tail -1 /tmp/regress-$L.log | cut -c1-110)"
  git -C /repo checkout -- . ; git -C /repo clean -fdq src
done
git -C /repo status --short | head -3
rm -rf /verif/replays
