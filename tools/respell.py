"""Respelled variants of generated programs.

The generators write user identifiers and string contents with a small alphabet of plain Bangla letters. Pakhi compares
names and strings code point by code point, so a program keeps its behaviour (up to the renaming) when its identifiers are
replaced, injectively, by other spellings (Props/C14 `consistent_renaming_same_run`). This pass rewrites a generated program
with spellings that look alike or share a normal form but are different code-point sequences:

  * precomposed  ড় ঢ় য়  (U+09DC U+09DD U+09DF)  vs  letter + nukta (U+09BC)
  * a conjunct written with and without ZERO WIDTH JOINER / NON-JOINER (U+200D / U+200C)
  * a user name that starts with `_` (the prefix of the built-in names)

and the variant is run through the same model-vs-implementation comparison as the original.  Any folding, stripping or
normalisation of those spellings anywhere between the lexer and the value printer makes the two sides differ.
"""

ZWJ, ZWNJ, NUKTA = "\u200d", "\u200c", "\u09bc"
YYA, RRA, RHA = "\u09df", "\u09dc", "\u09dd"      # precomposed য় ড় ঢ় (always written as escapes: editors normalise them)
BN_DIGITS = "০১২৩৪৫৬৭৮৯"

# leading letter of a generated identifier -> replacement (pairs share an NFC/NFD form or differ by an invisible character)
NAME_MAP = {
    "ক": "র" + ZWJ + "্যাংক",   # র‍্যাংক with joiner
    "খ": "র্যাংক",              # without
    "গ": "আ" + YYA,             # আয়  precomposed
    "ঘ": "আয" + NUKTA,     # আয়  letter + nukta
    "চ": "_চ",
    "ছ": "ব" + RRA,             # বড়  precomposed
    "জ": "বড" + NUKTA,     # বড়  letter + nukta
    "ট": "শ" + ZWNJ + "ক্ত",
    "ড": "শক্ত",
    "ত": "_তালিকা",
    "থ": "গা" + RHA,            # গাঢ়
    "দ": "গাঢ" + NUKTA,
    "a": "অ" + ZWJ + "্যা", "b": "অ্যা", "x": "ক" + ZWNJ + "ষ", "y": "কষ", "n": "_n", "z": "জ" + YYA, "v": "জয" + NUKTA,
}
# the same inside string literals (record keys, printed text, split / join arguments)
STR_MAP = {
    "ক": "আ" + YYA, "খ": "আয" + NUKTA, "গ": "ব" + RRA, "ঘ": "বড" + NUKTA, "চ": "র" + ZWJ + "্য", "ছ": "র্য",
    "ভ": "ভ" + YYA, "ন": "নয" + NUKTA, "k": "ক" + RRA + "ি", "n": "ন" + YYA, "a": "আ" + YYA, "s": "সায" + NUKTA,
}


def _ident_char(c):
    if c in "-_/":
        return True
    o = ord(c)
    if o < 128:
        return c.isalnum()
    return True


KEYWORDS = {"নাম", "যদি", "অথবা", "লুপ", "ফাং", "ফেরত", "থামাও", "আবার", "দেখাও", "সত্য", "মিথ্যা", "মডিউল"}


def _map_part(part):
    if part in KEYWORDS:
        return part
    if part and part[0] in NAME_MAP:
        return NAME_MAP[part[0]] + part[1:]
    return part


def respell(src, strings=True):
    """the respelled program, or None when the pass does not apply (nothing would change)"""
    out = []
    i, n = 0, len(src)
    changed = False
    while i < n:
        c = src[i]
        if c == '"':
            j = src.find('"', i + 1)
            if j < 0:
                j = n - 1
            body = src[i + 1:j]
            if strings and ".pakhi" not in body and "/" not in body:
                nb = "".join(STR_MAP.get(ch, ch) for ch in body)
                changed = changed or nb != body
                body = nb
            out.append('"' + body + (src[j] if j > i else ""))
            i = j + 1
        elif c == "#":
            j = src.find("#", i + 1)
            if j < 0:
                j = n - 1
            out.append(src[i:j + 1])
            i = j + 1
        elif c in BN_DIGITS:
            j = i
            while j < n and (src[j].isnumeric() or src[j] == "."):
                j += 1
            out.append(src[i:j])
            i = j
        elif c != "-" and c != "/" and _ident_char(c):
            j = i
            while j < n and _ident_char(src[j]):
                j += 1
            word = src[i:j]
            if word.startswith("_"):
                out.append(word)          # built-in names
            else:
                nw = "/".join(_map_part(p) for p in word.split("/"))
                changed = changed or nw != word
                out.append(nw)
            i = j
        else:
            out.append(c)
            i += 1
    return "".join(out) if changed else None


def variants(cases, limit, skip_names=()):
    """respelled twins of up to `limit` run-only cases (evenly spread over the case list); compared model-vs-implementation
    with the comparator of the original case, no extra oracle"""
    import common as C
    elig = [c for c in cases if c.lines and all(l.startswith("RUN ") for l in c.lines)
            and not c.info.get("skip") and c.name not in skip_names]
    step = max(1, len(elig) // max(1, limit))
    out = []
    for c in elig[::step][:limit]:
        new, changed = [], False
        for l in c.lines:
            parts = l.split(" ")
            try:
                v = respell(C.unhx(parts[1]))
            except Exception:
                v = None
            if v is None:
                new.append(l)
            else:
                changed = True
                parts[1] = C.hx(v)
                new.append(" ".join(parts))
        if changed:
            out.append(C.Case(c.name + "/respelled", new, compare=list(c.compare), oracle=None,
                              info={"respelled_from": c.name}, nontrivial=False))
    return out


if __name__ == "__main__":
    import sys
    print(respell(sys.stdin.read()))
