#!/usr/bin/env python3
"""./check <Cxx> quick|thorough [--replay file]  — one property check (see DESIGN.md §2.7)."""
import importlib, json, os, re, sys, time, traceback

sys.path.insert(0, os.path.dirname(os.path.abspath(__file__)))
import common as C
import srcfacts


AXIOMS_USED = {}
LEANCHECKER = {"ran": False, "ok": None}
ALLOWED_AXIOMS = {"propext", "Classical.choice", "Quot.sound"}
FORBIDDEN = re.compile(r"\b(sorry|admit|native_decide|bv_decide|implemented_by)\b|^axiom |unsafe |maxHeartbeats 0", re.M)


def strip_comments(text):
    text = re.sub(r"/-.*?-/", "", text, flags=re.S)
    return re.sub(r"--.*", "", text)


def audit(prop, theorems):
    """grep for forbidden constructs and `#print axioms` for every property theorem"""
    problems = []
    for dirpath, _, files in os.walk(os.path.join(C.LEAN_DIR, "Pakhi")):
        for f in files:
            if f.endswith(".lean"):
                txt = strip_comments(open(os.path.join(dirpath, f), encoding="utf-8").read())
                m = FORBIDDEN.search(txt)
                if m:
                    problems.append(f"{f}: forbidden construct {m.group(0)!r}")
    os.makedirs(C.SCRATCH, exist_ok=True)
    af = os.path.join(C.SCRATCH, f"Audit_{prop}.lean")
    with open(af, "w", encoding="utf-8") as fh:
        fh.write(f"import Pakhi.Props.{prop}\n")
        for t in theorems:
            fh.write(f"#print axioms {t}\n")
    rc, out = C.sh(["lake", "env", "lean", af], cwd=C.LEAN_DIR, timeout=1800)
    per = {}
    cur = None
    for line in out.split("\n"):
        m = re.match(r"^'([^']+)' depends on axioms: \[(.*)$", line)
        m2 = re.match(r"^'([^']+)' does not depend on any axioms", line)
        if m:
            cur = m.group(1)
            per[cur] = m.group(2)
            if "]" in line:
                cur = None
        elif m2:
            per[m2.group(1)] = ""
        elif cur is not None:
            per[cur] += " " + line
            if "]" in line:
                cur = None
    discharged = []
    for t in theorems:
        if t not in per:
            problems.append(f"theorem {t}: not found / does not check ({out.strip()[:300]})")
            continue
        axs = {a.strip() for a in per[t].replace("]", "").split(",") if a.strip()}
        AXIOMS_USED[t] = sorted(axs)
        bad = axs - ALLOWED_AXIOMS
        if bad:
            problems.append(f"theorem {t}: depends on axioms {sorted(bad)}")
        else:
            discharged.append(t)
    if rc != 0 and not problems:
        problems.append("audit file failed: " + out[-400:])
    return discharged, problems


def main():
    # a runaway generator / oracle must fail this check, not take the machine down
    try:
        import resource
        # soft limit only: build tools started through C.sh lift it again (see common._no_as_limit)
        _, hard = resource.getrlimit(resource.RLIMIT_AS)
        resource.setrlimit(resource.RLIMIT_AS, (24 << 30, hard))
    except Exception:
        pass
    args = [a for a in sys.argv[1:]]
    if len(args) < 1:
        print("usage: check <Cxx> quick|thorough [--replay file]")
        return 2
    prop = args[0]
    tier = os.environ.get("VERIF_TIER") or (args[1] if len(args) > 1 and not args[1].startswith("--") else "quick")
    if tier not in ("quick", "thorough"):
        tier = "quick"
    replay = args[args.index("--replay") + 1] if "--replay" in args else None
    seed = int(os.environ.get("VERIF_SEED", "20260930"))
    t0 = time.time()
    mod = importlib.import_module(f"props.{prop}")
    index = json.load(open(os.path.join(C.VERIF, "props_index.json"), encoding="utf-8"))
    theorems = index.get(prop, {}).get("theorems", [])
    violations = []      # (kind, replay path, text, no_input_found)
    notes = []

    # 1. source facts regenerated from /repo, 2. Lean build + audit
    facts_ok, facts_msg, facts_missing = srcfacts.generate(C.REPO, os.path.join(C.LEAN_DIR, "Pakhi", "Generated", "SrcFacts.lean"))
    for what in facts_missing:
        # not a violation: the table is still tied to the code by the correspondence runs below
        msg = f"source fact '{what}' not recognised in the current source (code shape changed); its agreement theorem is vacuous on this run, the tie for it rests on the correspondence runs"
        notes.append(msg)
        print("NOTE: " + msg)
    lean_ok, lean_log = C.build_model([f"Pakhi.Props.{prop}", "Pakhi.SrcFactsAgree"])
    proof_problems = []
    discharged = []
    if not facts_ok:
        proof_problems.append("source-fact extraction: " + facts_msg)
    if not lean_ok:
        proof_problems.append("lake build failed: " + lean_log[-1500:])
        if not os.path.exists(C.MODEL_BIN):
            print(lean_log[-3000:])
    else:
        discharged, ap = audit(prop, theorems)
        proof_problems += ap
        if tier == "thorough" and not replay:
            # independent re-check of the compiled proofs of this property's module by the toolchain's leanchecker
            rc, out = C.sh(["lake", "env", "leanchecker", f"Pakhi.Props.{prop}"], cwd=C.LEAN_DIR, timeout=1800)
            LEANCHECKER["ran"] = True
            LEANCHECKER["ok"] = (rc == 0)
            if rc != 0:
                proof_problems.append("leanchecker rejects Pakhi.Props." + prop + ": " + out[-600:])

    # 3. harness
    h_ok, h_log = C.build_harness()
    if not h_ok:
        proof_problems.append("harness does not build against /repo: " + h_log[-1500:])

    # 4./5. correspondence
    rng = C.Rng(seed)
    results = []
    cases = []
    stats = {}
    if h_ok and os.path.exists(C.MODEL_BIN):
        root = os.path.join("/var/tmp", f"pakhi-verif-{os.getpid()}")
        try:
            if replay:
                doc = json.load(open(replay, encoding="utf-8"))
                if doc["case"].endswith(("/respelled", "/collided", "/as-module")) or doc["case"] == "doc-corpus":
                    cases = [C.Case(doc["case"], doc["requests"], getattr(mod, "default_compare", C.compare_run))]
                else:
                    cases = [mod.case_from_replay(doc) if hasattr(mod, "case_from_replay") else C.Case(doc["case"], doc["requests"], mod.default_compare)]
            else:
                cases = mod.corpus_cases() if hasattr(mod, "corpus_cases") else []
                cases += mod.cases(rng, tier, stats)
                skipped = [c for c in cases if c.info.get("skip")]
                if skipped:
                    stats["skipped_over_budget"] = len(skipped)
                    cases = [c for c in cases if not c.info.get("skip")]
            if hasattr(mod, "fix_root"):
                mod.fix_root(cases, root)
            if not replay:
                # respelled twins (tools/respell.py): the same programs with look-alike / same-normal-form spellings of the
                # user names and string contents, compared model-vs-implementation
                import respell
                twins = respell.variants(cases, 3000 if tier == "thorough" else 300,
                                         skip_names={k.get("case") for k in C.load_known() if k.get("status") == "known"})
                stats["respelled_twins"] = len(twins)
                # the programs the repository shows to its users (README, user_docs, test suite), read from /repo now
                import doccorpus
                dc = doccorpus.cases()
                stats["doc_corpus_programs"] = len(dc)
                # module twins (tools/modtwin.py): the same programs run as an imported module (qualified names, file boundary)
                import modtwin
                mt = modtwin.variants(cases, 1500 if tier == "thorough" else 150, root,
                                      skip_names={k.get("case") for k in C.load_known() if k.get("status") == "known"})
                stats["module_twins"] = len(mt)
                cases += twins + dc + mt
            results = C.run_cases(cases, root)
            if hasattr(mod, "extra_checks"):
                for kind, name, text, info in mod.extra_checks(rng, tier, stats, root):
                    c = C.Case(name, [], info=info)
                    results.append((c, [], [], [(kind, text)]))
        except Exception:
            proof_problems.append("check machinery failed: " + traceback.format_exc()[-1500:])
        finally:
            import shutil
            shutil.rmtree(root, ignore_errors=True)

    # 6. known findings, replays, evidence
    known = [k for k in C.load_known() if k.get("property") == prop and k.get("status") == "known"]
    known_hit = set()
    n_viol = 0
    for c, ma, ia, problems in results:
        if not problems:
            continue
        kf = None
        for k in known:
            if k.get("case") == c.name or (k.get("input") and any(k["input"] in " ".join(C.decode_request(l)) for l in c.lines)):
                kf = k
        if kf is not None:
            known_hit.add(kf["id"])
            continue
        n_viol += 1
        if n_viol > 20:
            continue   # further failing cases are counted, not written out
        # only the model's and the code's *internal* bookkeeping differ on this input (arena layout, free-list order,
        # collection counters) and the property-level oracle of the case is satisfied: the tie is broken, the property is
        # not shown to fail on this input
        tie_only = all(kind == "model-vs-impl-internal" for kind, _ in problems)
        path = C.write_replay(prop, c, ma, ia, problems,
                              note="correspondence model-vs-implementation (internal state) no longer checks on this input; "
                                   "the property-level oracle found no failing input" if tie_only else "")
        print(f"VIOLATION property={prop} replay={path}" + (" no-failing-input-found" if tie_only else ""))
        for kind, text in problems[:3]:
            print(f"  [{kind}] {text[:400]}")
    for k in known:
        # a known finding is reported on every run (it is a fact about the code, see DESIGN §3.2)
        print(f"KNOWN-FINDING: property={prop} {k['what']}")
    if proof_problems:
        c = C.Case("proof-or-tie-broken", [], info={"problems": proof_problems})
        path = C.write_replay(prop, c, [], [], [("proof", p) for p in proof_problems],
                              note="a theorem, the source-fact agreement or the build no longer checks")
        suffix = "" if n_viol else " no-failing-input-found"
        print(f"VIOLATION property={prop} replay={path}{suffix}")
        for p in proof_problems[:3]:
            print("  [proof] " + p[:600])
        n_viol += 1

    keys = {}
    for c in cases:
        if c.nontrivial:
            keys[c.key()] = 1
    samples = []
    for c in cases[:: max(1, len(cases) // 4)][:4]:
        samples.append({"case": c.name, "requests": [C.decode_request(l) for l in c.lines[:6]], "info": c.info})
    samples += [{"theorem": t} for t in discharged[:6]]
    cov = {
        "obligations": max(1, len(theorems)),
        "discharged": len(discharged) if theorems else 0,
        "checker_cmd": f"cd /verif/lean && lake build Pakhi.Props.{prop} Pakhi.SrcFactsAgree && lake env lean scratch/Audit_{prop}.lean  (#print axioms of every listed theorem)",
        "trusted_base": index.get(prop, {}).get("trusted_base", []) + [
            "Lean 4.33 kernel; axioms allowed: propext, Classical.choice, Quot.sound (audited per theorem on this run)",
            "correspondence check: tools/run_check.py, harness/src/main.rs, lean/Driver.lean, generators in tools/props/" + prop + ".py",
            "source-fact extractor tools/srcfacts.py + Pakhi/SrcFactsAgree.lean",
        ],
        "theorems": discharged,
        "theorems_listed": theorems,
        "evaluations": sum(len(c.lines) for c in cases),
        "programs": len(cases),
        "distinct_nontrivial": len(keys),
        "disagreements_checked": sum(len(c.lines) for c in cases),
        "rule": getattr(mod, "RULE", ""),
        "samples": samples,
        "distribution": stats,
        "exhaustive": bool(stats.get("exhaustive", False)),
        "known_findings_reported": [k["id"] for k in known],
        # the Lean structured semantics (Spec/Sem.lean) run by the model driver on every program `unflatten` recognises
        "structured_semantics": dict(C.SPEC_STATS),
        "leanchecker": dict(LEANCHECKER),
        # `#print axioms` of every listed theorem on this run (empty list: no axioms at all)
        "axioms_per_theorem": dict(AXIOMS_USED),
        # source facts whose code shape was not recognised on this run (their agreement theorems are vacuous; the tie for
        # them rests on the correspondence runs)
        "source_facts_not_recognised": list(facts_missing),
        "notes": notes,
    }
    C.write_evidence(prop, tier, seed, cov, time.time() - t0, n_viol, getattr(mod, "ASSUMPTIONS", []))
    print(f"{prop} {tier}: {len(cases)} cases, {cov['evaluations']} requests, theorems {len(discharged)}/{len(theorems)}, "
          f"violations {n_viol}, {time.time() - t0:.1f}s"
          + (f", structured {C.SPEC_STATS['structured']}/{C.SPEC_STATS['requests']}" if C.SPEC_STATS["requests"] else ""))
    return 1 if n_viol else 0


if __name__ == "__main__":
    sys.exit(main())
