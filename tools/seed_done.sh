#!/bin/bash
# seed_done.sh <Cxx> "<caught-by text>": stamp meta.json of a stored seeded change and drop its worktree
P=$1; shift
python3 - "$P" "$*" <<'PY'
import json,sys
p,txt=sys.argv[1],sys.argv[2]
d=f'/verif/seeded/{p}'
m=json.load(open(f'{d}/meta.json',encoding='utf-8'))
m['breaks_property']=p
m['verified_by_me']="scratch worktree: cargo test --offline passes unedited with the change; demo run with and without the change distinguishes (observed_with.verified.txt / expected_without.verified.txt); patch applied to /repo with git apply, ./check run, /repo restored with git checkout -- ."
m['caught_by']=txt
json.dump(m,open(f'{d}/meta.json','w',encoding='utf-8'),ensure_ascii=False,indent=1)
PY
[ -d /tmp/wt-$P ] && git -C /repo worktree remove --force /tmp/wt-$P
echo "$P done"
