#!/bin/bash
# seed_eval.sh <Cxx> [other checks...] : verify a seeded change delivered in /tmp/wt-<Cxx>/seeded, store it under
# /verif/seeded/<Cxx>/ and run the property's check (plus any others named) against it in /repo.
set -u
P=$1; shift
PROP=${P:0:3}
WT=/tmp/wt-$P
OUT=/verif/seeded/$P
mkdir -p $OUT
cd $WT || exit 1
git add -N src 2>/dev/null; git diff -- src > /tmp/seed-$P.diff
if ! cmp -s /tmp/seed-$P.diff seeded/patch.diff; then echo "note: patch.diff differs from working tree diff; using working tree diff"; fi
cp /tmp/seed-$P.diff $OUT/patch.diff
for f in seeded/*; do case "$f" in seeded/patch.diff) ;; *) cp -r "$f" $OUT/ ;; esac; done
echo "== tests with the change"
RUSTFLAGS=-Awarnings cargo test --offline 2>&1 | grep -E "^test result|FAILED|panicked" | sort | uniq -c
DEMO=$(ls seeded/demo.pakhi seeded/main.pakhi 2>/dev/null | head -1)
if [ -n "$DEMO" ]; then
  echo "== demo WITH change"; (cd seeded && timeout 60 env RUSTFLAGS=-Awarnings cargo run --offline --quiet -- $(basename $DEMO) > /tmp/seed-$P.with 2>&1; echo "exit=$?" >> /tmp/seed-$P.with); head -c 1500 /tmp/seed-$P.with
  git apply -R /tmp/seed-$P.diff || { echo '!! cannot reverse the change'; }
  echo "== demo WITHOUT change"; (cd seeded && timeout 60 env RUSTFLAGS=-Awarnings cargo run --offline --quiet -- $(basename $DEMO) > /tmp/seed-$P.without 2>&1; echo "exit=$?" >> /tmp/seed-$P.without); head -c 1500 /tmp/seed-$P.without
  git apply /tmp/seed-$P.diff || { echo '!! cannot re-apply the change'; }
  if cmp -s /tmp/seed-$P.with /tmp/seed-$P.without; then echo "!! demo does not distinguish"; else echo "== demo distinguishes: yes"; fi
  cp /tmp/seed-$P.with $OUT/observed_with.verified.txt; cp /tmp/seed-$P.without $OUT/expected_without.verified.txt
fi
echo "== checks against the change in /repo"
cd /repo && git apply $OUT/patch.diff || { echo "patch does not apply to /repo"; exit 1; }
cd /verif
for C in $PROP "$@"; do ./check $C quick > /tmp/seed-$P-$C.log 2>&1; echo "$C exit=$? : $(grep -c '^VIOLATION' /tmp/seed-$P-$C.log) VIOLATION lines; $(tail -1 /tmp/seed-$P-$C.log)"; grep -m3 -A2 '^VIOLATION' /tmp/seed-$P-$C.log | cut -c1-300; done
git -C /repo checkout -- . ; git -C /repo clean -fdq src ; git -C /repo status --short | head -3
rm -rf /verif/replays
