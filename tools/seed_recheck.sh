#!/bin/bash
# seed_recheck.sh <label> <check...> : apply /verif/seeded/<label>/patch.diff to /repo, run the checks, restore /repo
L=$1; shift
cd /repo && git apply /verif/seeded/$L/patch.diff || { echo "patch does not apply"; exit 1; }
cd /verif
for C in "$@"; do ./check $C quick > /tmp/recheck-$L-$C.log 2>&1; echo "$L vs $C exit=$? : $(grep -c '^VIOLATION' /tmp/recheck-$L-$C.log) VIOLATION lines; $(tail -1 /tmp/recheck-$L-$C.log)"; grep -m2 -A2 '^VIOLATION' /tmp/recheck-$L-$C.log | cut -c1-400; done
git -C /repo checkout -- . ; git -C /repo status --short | head -3
rm -rf /verif/replays
