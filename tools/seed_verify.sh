#!/bin/bash
# seed_verify.sh <Cxx>: re-verify a stored seeded change from /verif/seeded/<Cxx> in a fresh scratch worktree
# (demo without the change, tests + demo with the change), then remove the worktree.
P=$1; D=/verif/seeded/$P; WT=/tmp/sv-$P
git -C /repo worktree add --detach $WT HEAD >/dev/null 2>&1 || exit 1
mkdir -p $WT/seeded && cp -r $D/* $WT/seeded/
cd $WT
DEMO=$(cd seeded && ls demo.pakhi main.pakhi 2>/dev/null | head -1)
run() { (cd seeded && timeout 120 env RUSTFLAGS=-Awarnings cargo run --offline --quiet -- $DEMO > $1 2>&1; echo "exit=$?" >> $1); }
[ -n "$DEMO" ] && run $D/expected_without.verified.txt
git apply seeded/patch.diff || { echo "patch does not apply"; }
echo "tests with change: $(env RUSTFLAGS=-Awarnings cargo test --offline 2>&1 | grep -E '^test result' | awk '{p+=$4; f+=$6} END {print p" passed, "f" failed"}')"
[ -n "$DEMO" ] && run $D/observed_with.verified.txt
if [ -n "$DEMO" ]; then if cmp -s $D/expected_without.verified.txt $D/observed_with.verified.txt; then echo "$P: demo does NOT distinguish"; else echo "$P: demo distinguishes"; fi; fi
if [ -f seeded/demo_test.rs ]; then cp seeded/demo_test.rs tests/zz_seeded_demo.rs; echo "demo test with change: $(env RUSTFLAGS=-Awarnings cargo test --offline --test zz_seeded_demo 2>&1 | grep -E '^test result')"; git stash -q -- src 2>/dev/null || git checkout -- src; echo "demo test without change: $(env RUSTFLAGS=-Awarnings cargo test --offline --test zz_seeded_demo 2>&1 | grep -E '^test result')"; fi
cd /; git -C /repo worktree remove --force $WT
