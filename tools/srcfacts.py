#!/usr/bin/env python3
"""Source-fact extraction (DESIGN.md §1 tie 2): a small translator from the regular table-shaped
parts of the Rust source to Lean definitions.  `generate` rewrites
lean/Pakhi/Generated/SrcFacts.lean on every run; Pakhi/SrcFactsAgree.lean proves that each generated
table equals the model's table, so a changed table breaks a proof obligation deterministically."""
import os, re, sys

TK = {  # Rust TokenKind variant -> model constructor
    "Identifier": ".ident", "If": ".kIf", "Else": ".kElse", "Loop": ".kLoop", "Var": ".kVar",
    "Function": ".kFunc", "Plus": ".plus", "Minus": ".minus", "Multiply": ".mul", "Division": ".div",
    "Remainder": ".rem", "At": ".at", "Semicolon": ".semi", "Map": ".map", "Comment": ".comment",
    "Comma": ".comma", "ParenStart": ".lparen", "ParenEnd": ".rparen", "CurlyBraceStart": ".lcurly",
    "CurlyBraceEnd": ".rcurly", "SquareBraceStart": ".lsq", "SquareBraceEnd": ".rsq", "Equal": ".eq",
    "LessThan": ".lt", "GreaterThan": ".gt", "EqualEqual": ".eqeq", "NotEqual": ".ne",
    "LessThanOrEqual": ".le", "GreaterThanOrEqual": ".ge", "And": ".and", "Or": ".or", "Not": ".not",
    "Break": ".brk", "Continue": ".cont", "Return": ".ret", "Print": ".print", "Import": ".import",
    "PrintNoEOL": ".printNoEOL", "EOT": ".eot", "Bool(true)": ".bool true", "Bool(false)": ".bool false",
}


class Unrecognised(Exception):
    pass


def rd(repo, rel):
    return open(os.path.join(repo, rel), encoding="utf-8").read()


def chars(w):
    return "[" + ", ".join(str(ord(c)) for c in w) + "]"


def unescape_char(c):
    return {"\\n": "\n", "\\t": "\t", "\\r": "\r", "\\\\": "\\", "\\'": "'"}.get(c, c)


def fn_body(src, name):
    m = re.search(r"fn " + re.escape(name) + r"\b[^{]*\{", src)
    if not m:
        raise Unrecognised(f"fn {name} not found")
    i = m.end()
    depth = 1
    while depth and i < len(src):
        if src[i] == "{":
            depth += 1
        elif src[i] == "}":
            depth -= 1
        elif src[i] == "'" and i + 2 < len(src):
            # skip char literals such as '{' or '\''
            j = i + 1
            if src[j] == "\\":
                j += 1
            if j + 1 < len(src) and src[j + 1] == "'":
                i = j + 1
        elif src[i] == '"':
            j = i + 1
            while j < len(src) and src[j] != '"':
                j += 2 if src[j] == "\\" else 1
            i = j
        i += 1
    return src[m.end():i - 1]


def extract_facts(repo):
    """every fact on its own: a fact whose code shape is not recognised is `None` and its name is in the second result
    (`unrecognised`); the other facts are still extracted"""
    lexer = rd(repo, "src/frontend/lexer.rs")
    parser = rd(repo, "src/frontend/parser.rs")
    interp = rd(repo, "src/backend/interpreter.rs")
    builtins = rd(repo, "src/backend/built_ins.rs")
    f = {}
    missing = []

    def fact(names, what, fn):
        try:
            vals = fn()
        except Unrecognised:
            vals = None
        except Exception:
            vals = None
        if vals is None:
            missing.append(what)
            for n in names:
                f[n] = None
        else:
            for n, v in zip(names, vals):
                f[n] = v

    def keywords():
        kw = re.findall(r'keyword_map\.insert\("([^"]+)"\.chars\(\)\.collect\(\), TokenKind::(\w+(?:\((?:true|false)\))?)\);', fn_body(lexer, "keyword"))
        if not kw:
            raise Unrecognised("keyword table")
        return ([(w, TK[k]) for w, k in kw],)
    fact(["keywords"], "keyword table", keywords)

    def cons():
        return fn_body(lexer, "consume")

    def simple():
        x = re.findall(r"'(\\?.)' => \{\s*consumed_char = 1;\s*consumed_line = 0;\s*token = Token \{\s*kind: TokenKind::(\w+),", cons())
        if len(x) < 10:
            raise Unrecognised("single-character token arms")
        return ([(unescape_char(c), TK[k]) for c, k in x],)
    fact(["simple"], "single-character token arms", simple)

    def two():
        x = re.findall(r"'(.)' => \{\s*if start \+ 1 < src\.len\(\) && src\[start\+1\] == '(.)' \{\s*consumed_char = 2;.*?kind: TokenKind::(\w+),.*?\} else \{\s*consumed_char = 1;.*?kind: TokenKind::(\w+),", cons(), flags=re.S)
        if len(x) != 4:
            raise Unrecognised("two-character look-ahead arms")
        return ([(c, d, TK[k2], TK[k1]) for c, d, k2, k1 in x],)
    fact(["two"], "two-character look-ahead arms", two)

    def minus():
        m = re.search(r"if start \+ 1 < src\.len\(\) && src\[start\+1\] == '>' \{.*?kind: TokenKind::(\w+),.*?\} else \{.*?kind: TokenKind::(\w+),", cons(), flags=re.S)
        if not m:
            raise Unrecognised("'-' arm")
        return ((TK[m.group(1)], TK[m.group(2)]),)
    fact(["minus"], "'-' arm", minus)

    def blanks():
        m = re.search(r"((?:'\\?.'\s*\|\s*)+'\\?.') => \{\s*consumed_char = 1;\s*consumed_line = 0;\s*return Ok\(\(None", cons())
        if not m:
            raise Unrecognised("blank arm")
        return ([unescape_char(c) for c in re.findall(r"'(\\?.)'", m.group(1))],)
    fact(["blanks"], "blank arm", blanks)

    def after_operand():
        m = re.search(r"let after_operand = match tokens\.last\(\) \{.*?Some\(last\) => match last\.kind \{(.*?)=> true", lexer, flags=re.S)
        if not m:
            raise Unrecognised("after_operand")
        return (re.findall(r"TokenKind::(\w+)", m.group(1)),)
    fact(["after_operand"], "after_operand", after_operand)

    def ident_extra():
        m = re.search(r"if c == '(.)' \|\| c == '(.)' \|\| c == '(.)' \{\s*return true;\s*\}\s*!c\.is_ascii_whitespace\(\) && !c\.is_ascii_punctuation\(\) && !c\.is_ascii_control\(\)", fn_body(lexer, "is_valid_identifier_char"))
        if not m:
            raise Unrecognised("identifier character class")
        return (list(m.groups()),)
    fact(["ident_extra"], "identifier character class", ident_extra)

    def digits():
        d1 = re.findall(r"'(.)' => return Ok\((\d)\.0\)", fn_body(lexer, "bn_digit_to_en_digit"))
        d2 = re.findall(r"'(.)' => '(\d)'", fn_body(builtins, "bn_digit_to_en_digit"))
        d3 = re.findall(r"'(\d)' => '(.)'", fn_body(builtins, "en_digit_to_bn_digit"))
        d4 = re.findall(r"'(.)' => bangla_num_string\.push\('(.)'\)", fn_body(interp, "to_bn_num"))
        if not (len(d1) == len(d2) == len(d3) == 10 and len(d4) == 12):
            raise Unrecognised("digit tables")
        return ([(c, int(v)) for c, v in d1], d2, d3, d4)
    fact(["digits_lexer", "digits_bn_en", "digits_en_bn", "digits_print"], "digit tables", digits)

    def builtin_names():
        m = re.search(r"let function_list = vec!\[(.*?)\];", builtins, flags=re.S)
        if not m:
            raise Unrecognised("built-in name list")
        return (re.findall(r'"([^"]+)"', m.group(1)),)
    fact(["builtins"], "built-in name list", builtin_names)

    def types():
        ty = re.findall(r'DataType::(\w+)(?:\(_\))? => DataType::String\(String::from\("([^"]+)"\)\)', fn_body(builtins, "_type"))
        if len(ty) != 7:
            raise Unrecognised("type names")
        return (ty,)
    fact(["types"], "type names", types)

    def threshold():
        m = re.search(r"if self\.total_allocated_object_count >= (\d+) \{", fn_body(interp, "run"))
        if not m:
            raise Unrecognised("collection threshold")
        return (int(m.group(1)),)
    fact(["threshold"], "collection threshold", threshold)

    def constants():
        m1 = re.search(r'root_scope\.insert\("([^"]+)"\.to_string\(\)', interp)
        m2 = re.search(r'if var_name\s*== "([^"]+)"\.to_string\(\)', fn_body(parser, "is_dirname_constant"))
        if not m1 or not m2:
            raise Unrecognised("built-in constants")
        m3 = re.search(r'if token\.lexeme\.iter\(\)\.collect::<String>\(\) == "([^"]+)"', fn_body(parser, "prepend_with_import_name"))
        return (m1.group(1), m2.group(1), m3.group(1) if m3 else "")
    fact(["platform_const", "dirname_const", "platform_not_renamed"], "built-in constants", constants)

    def bools():
        b = re.findall(r'(true|false) => "([^"]+)"\.to_string\(\)', fn_body(interp, "to_bn_bool"))
        if len(b) != 2:
            raise Unrecognised("boolean words")
        return (b,)
    fact(["bools"], "boolean words", bools)

    def ladder_():
        ladder = []
        order = ["or", "and", "equality", "comparison", "addition", "multiplication"]
        for name in order:
            body = fn_body(parser, name)
            m = re.search(r"let mut expr = self\.(\w+)\(\)\?;", body)
            w = re.search(r"while (.*?)\{", body, flags=re.S)
            c = re.search(r"expr = Expr::(\w+)\(", body)
            r = re.search(r"let right = self\.(\w+)\(\)\?;", body)
            if not (m and w and c and r) or m.group(1) != r.group(1):
                raise Unrecognised(f"ladder level {name}")
            ops = re.findall(r"TokenKind::\s*(\w+)", w.group(1))
            ladder.append((name, [TK[o] for o in ops], m.group(1), c.group(1)))
        m = re.search(r"fn expression\(&mut self\)[^{]*\{\s*self\.(\w+)\(\)", parser)
        ub = fn_body(parser, "unary")
        m2 = re.search(r"return self\.(\w+)\(\);", ub)
        return (ladder, m.group(1) if m else None, [TK[o] for o in re.findall(r"== TokenKind::(\w+)", ub)], m2.group(1) if m2 else None)
    fact(["ladder", "expression_entry", "unary_ops", "unary_next"], "precedence ladder", ladder_)
    return f, missing


def extract(repo):
    """all facts, or `Unrecognised` (used where every fact is needed: tools/mkwords.py)"""
    f, missing = extract_facts(repo)
    if missing:
        raise Unrecognised(", ".join(missing))
    return f


CTOR_LEVEL = {"Or": 0, "And": 1, "Equality": 2, "Comparison": 3, "AddOrSub": 4, "MulOrDivOrRemainder": 5}


def opt(v, render):
    return "none" if v is None else "some (" + render(v) + ")"


def lean_of(f):
    """every table as an `Option`: `none` = the code shape was not recognised on this run (the agreement theorem is then
    vacuous for that table and the tie rests on the correspondence runs; the check prints a NOTE)"""
    o = ["/- GENERATED on every run by tools/srcfacts.py from /repo's Rust source.  Do not edit. -/",
         "import Pakhi.Model.Lexer", "", "namespace Pakhi", "namespace Generated", ""]
    lst = lambda items: "[" + ", ".join(items) + "]"
    o.append("def keywords : Option (List (List Nat × TK)) := " + opt(f["keywords"], lambda v: lst(f"({chars(w)}, {k})" for w, k in v)))
    o.append("def simpleToks : Option (List (Nat × TK)) := " + opt(f["simple"], lambda v: lst(f"({ord(c)}, {k})" for c, k in v)))
    o.append("def twoCharToks : Option (List (Nat × Nat × TK × TK)) := " + opt(f["two"], lambda v: lst(f"({ord(c)}, {ord(d)}, {k2}, {k1})" for c, d, k2, k1 in v)))
    o.append("def minusArm : Option (TK × TK) := " + opt(f["minus"], lambda v: f"({v[0]}, {v[1]})"))
    o.append("def blanks : Option (List Nat) := " + opt(f["blanks"], lambda v: lst(str(ord(c)) for c in v)))
    pat = {"Num": ".num _", "String": ".str _", "Bool": ".bool _"}
    if f["after_operand"] is None:
        o.append("def afterOperand : Option (TK → Bool) := none")
    else:
        o.append("def afterOperandFn : TK → Bool")
        for k in f["after_operand"]:
            o.append(f"  | {pat.get(k) or TK[k]} => true")
        o.append("  | _ => false")
        o.append("def afterOperand : Option (TK → Bool) := some afterOperandFn")
    o.append("def identExtra : Option (List Nat) := " + opt(f["ident_extra"], lambda v: lst(str(ord(c)) for c in v)))
    o.append("def digitsLexer : Option (List (Nat × Nat)) := " + opt(f["digits_lexer"], lambda v: lst(f"({ord(c)}, {x})" for c, x in v)))
    o.append("def digitsBnEn : Option (List (Nat × Nat)) := " + opt(f["digits_bn_en"], lambda v: lst(f"({ord(c)}, {ord(x)})" for c, x in v)))
    o.append("def digitsEnBn : Option (List (Nat × Nat)) := " + opt(f["digits_en_bn"], lambda v: lst(f"({ord(c)}, {ord(x)})" for c, x in v)))
    o.append("def digitsPrint : Option (List (Nat × Nat)) := " + opt(f["digits_print"], lambda v: lst(f"({ord(c)}, {ord(x)})" for c, x in v)))
    o.append("def builtins : Option (List (List Nat)) := " + opt(f["builtins"], lambda v: lst(chars(w) for w in v)))
    tyi = {"Num": 0, "Bool": 1, "String": 2, "List": 3, "NamelessRecord": 4, "Function": 5, "Nil": 6}
    o.append("/-- (index of the `DataType` variant in declaration order, name) -/")
    o.append("def typeNames : Option (List (Nat × List Nat)) := " + opt(f["types"], lambda v: lst(f'({tyi.get(t, 99)}, {chars(w)})' for t, w in v)))
    o.append("def gcThreshold : Option Nat := " + opt(f["threshold"], str))
    o.append("def platformConst : Option (List Nat) := " + opt(f["platform_const"], chars))
    o.append("def platformNotRenamed : Option (List Nat) := " + opt(f["platform_not_renamed"], chars))
    o.append("def dirnameConst : Option (List Nat) := " + opt(f["dirname_const"], chars))
    o.append("def boolWords : Option (List (Bool × List Nat)) := " + opt(f["bools"], lambda v: lst(f"({b}, {chars(w)})" for b, w in v)))
    o.append("/-- (level, operators, level of the operand parser, level of the AST constructor) -/")
    if f["ladder"] is None:
        o.append("def ladder : Option (List (Nat × List TK × Nat × Nat)) := none")
        o.append("def expressionEntry : Option Nat := none")
        o.append("def unaryOps : Option (List TK) := none")
        o.append("def unaryNextIsCall : Option Nat := none")
    else:
        names = [l[0] for l in f["ladder"]] + ["unary"]
        rows = []
        for i, (name, ops, nxt, ctor) in enumerate(f["ladder"]):
            nxt_i = names.index(nxt) if nxt in names else 99
            rows.append(f"({i}, [{', '.join(ops)}], {nxt_i}, {CTOR_LEVEL.get(ctor, 99)})")
        o.append("def ladder : Option (List (Nat × List TK × Nat × Nat)) := some [" + ", ".join(rows) + "]")
        o.append(f"def expressionEntry : Option Nat := some {names.index(f['expression_entry']) if f['expression_entry'] in names else 99}")
        o.append("def unaryOps : Option (List TK) := some [" + ", ".join(f["unary_ops"]) + "]")
        o.append("/-- 1 iff `unary()` falls through to `call()` -/")
        o.append(f'def unaryNextIsCall : Option Nat := some {1 if f["unary_next"] == "call" else 0}')
    o += ["", "end Generated", "end Pakhi", ""]
    return "\n".join(o)


def generate(repo, out_path):
    """returns (ok, message, unrecognised): ok is False only when the source cannot be read at all; facts whose code shape
    is not recognised are generated as `none` and listed in `unrecognised`"""
    try:
        f, missing = extract_facts(repo)
        txt = lean_of(f)
    except Exception as e:  # a source file is missing or unreadable
        return False, f"extraction failed: {e!r}", []
    old = open(out_path, encoding="utf-8").read() if os.path.exists(out_path) else None
    if old != txt:
        os.makedirs(os.path.dirname(out_path), exist_ok=True)
        open(out_path, "w", encoding="utf-8").write(txt)
    return True, "", missing


if __name__ == "__main__":
    ok, msg, missing = generate(sys.argv[1] if len(sys.argv) > 1 else "/repo",
                                os.path.join(os.path.dirname(os.path.dirname(os.path.abspath(__file__))), "lean", "Pakhi", "Generated", "SrcFacts.lean"))
    print(("ok" + (" (not recognised: " + ", ".join(missing) + ")" if missing else "")) if ok else msg)
