#!/usr/bin/env python3
"""Source-fact extraction (DESIGN.md §1 tie 2): a small translator from the regular table-shaped
parts of the Rust source to Lean definitions.  `generate` rewrites
lean/Pakhi/Generated/SrcFacts.lean on every run; Pakhi/SrcFactsAgree.lean proves that each generated
table equals the model's table, so a changed table breaks a proof obligation deterministically."""
import os, re, sys

TK = {  # Rust TokenKind variant -> model constructor
    "Identifier": ".ident", "If": ".kIf", "Else": ".kElse", "Loop": ".kLoop", "Var": ".kVar",
    "Function": ".kFunc", "Plus": ".plus", "Minus": ".minus", "Multiply": ".mul", "Division": ".div",
    "Remainder": ".rem", "At": ".at", "Semicolon": ".semi", "Map": ".map", "Comment": ".comment",
    "Comma": ".comma", "ParenStart": ".lparen", "ParenEnd": ".rparen", "CurlyBraceStart": ".lcurly",
    "CurlyBraceEnd": ".rcurly", "SquareBraceStart": ".lsq", "SquareBraceEnd": ".rsq", "Equal": ".eq",
    "LessThan": ".lt", "GreaterThan": ".gt", "EqualEqual": ".eqeq", "NotEqual": ".ne",
    "LessThanOrEqual": ".le", "GreaterThanOrEqual": ".ge", "And": ".and", "Or": ".or", "Not": ".not",
    "Break": ".brk", "Continue": ".cont", "Return": ".ret", "Print": ".print", "Import": ".import",
    "PrintNoEOL": ".printNoEOL", "EOT": ".eot", "Bool(true)": ".bool true", "Bool(false)": ".bool false",
}


class Unrecognised(Exception):
    pass


def rd(repo, rel):
    return open(os.path.join(repo, rel), encoding="utf-8").read()


def chars(w):
    return "[" + ", ".join(str(ord(c)) for c in w) + "]"


def unescape_char(c):
    return {"\\n": "\n", "\\t": "\t", "\\r": "\r", "\\\\": "\\", "\\'": "'"}.get(c, c)


def fn_body(src, name):
    m = re.search(r"fn " + re.escape(name) + r"\b[^{]*\{", src)
    if not m:
        raise Unrecognised(f"fn {name} not found")
    i = m.end()
    depth = 1
    while depth and i < len(src):
        if src[i] == "{":
            depth += 1
        elif src[i] == "}":
            depth -= 1
        elif src[i] == "'" and i + 2 < len(src):
            # skip char literals such as '{' or '\''
            j = i + 1
            if src[j] == "\\":
                j += 1
            if j + 1 < len(src) and src[j + 1] == "'":
                i = j + 1
        elif src[i] == '"':
            j = i + 1
            while j < len(src) and src[j] != '"':
                j += 2 if src[j] == "\\" else 1
            i = j
        i += 1
    return src[m.end():i - 1]


def extract(repo):
    lexer = rd(repo, "src/frontend/lexer.rs")
    parser = rd(repo, "src/frontend/parser.rs")
    interp = rd(repo, "src/backend/interpreter.rs")
    builtins = rd(repo, "src/backend/built_ins.rs")
    f = {}

    kw = re.findall(r'keyword_map\.insert\("([^"]+)"\.chars\(\)\.collect\(\), TokenKind::(\w+(?:\((?:true|false)\))?)\);', fn_body(lexer, "keyword"))
    if not kw:
        raise Unrecognised("keyword table")
    f["keywords"] = [(w, TK[k]) for w, k in kw]

    cons = fn_body(lexer, "consume")
    simple = re.findall(r"'(\\?.)' => \{\s*consumed_char = 1;\s*consumed_line = 0;\s*token = Token \{\s*kind: TokenKind::(\w+),", cons)
    if len(simple) < 10:
        raise Unrecognised("single-character token arms")
    f["simple"] = [(unescape_char(c), TK[k]) for c, k in simple]
    two = re.findall(r"'(.)' => \{\s*if start \+ 1 < src\.len\(\) && src\[start\+1\] == '(.)' \{\s*consumed_char = 2;.*?kind: TokenKind::(\w+),.*?\} else \{\s*consumed_char = 1;.*?kind: TokenKind::(\w+),", cons, flags=re.S)
    if len(two) != 4:
        raise Unrecognised("two-character look-ahead arms")
    f["two"] = [(c, d, TK[k2], TK[k1]) for c, d, k2, k1 in two]
    m = re.search(r"if start \+ 1 < src\.len\(\) && src\[start\+1\] == '>' \{.*?kind: TokenKind::(\w+),.*?\} else \{.*?kind: TokenKind::(\w+),", cons, flags=re.S)
    if not m:
        raise Unrecognised("'-' arm")
    f["minus"] = (TK[m.group(1)], TK[m.group(2)])
    m = re.search(r"((?:'\\?.'\s*\|\s*)+'\\?.') => \{\s*consumed_char = 1;\s*consumed_line = 0;\s*return Ok\(\(None", cons)
    if not m:
        raise Unrecognised("blank arm")
    f["blanks"] = [unescape_char(c) for c in re.findall(r"'(\\?.)'", m.group(1))]
    m = re.search(r"let after_operand = match tokens\.last\(\) \{.*?Some\(last\) => match last\.kind \{(.*?)=> true", lexer, flags=re.S)
    if not m:
        raise Unrecognised("after_operand")
    f["after_operand"] = re.findall(r"TokenKind::(\w+)", m.group(1))
    m = re.search(r"if c == '(.)' \|\| c == '(.)' \|\| c == '(.)' \{\s*return true;\s*\}\s*!c\.is_ascii_whitespace\(\) && !c\.is_ascii_punctuation\(\) && !c\.is_ascii_control\(\)", fn_body(lexer, "is_valid_identifier_char"))
    if not m:
        raise Unrecognised("identifier character class")
    f["ident_extra"] = list(m.groups())

    d1 = re.findall(r"'(.)' => return Ok\((\d)\.0\)", fn_body(lexer, "bn_digit_to_en_digit"))
    d2 = re.findall(r"'(.)' => '(\d)'", fn_body(builtins, "bn_digit_to_en_digit"))
    d3 = re.findall(r"'(\d)' => '(.)'", fn_body(builtins, "en_digit_to_bn_digit"))
    d4 = re.findall(r"'(.)' => bangla_num_string\.push\('(.)'\)", fn_body(interp, "to_bn_num"))
    if not (len(d1) == len(d2) == len(d3) == 10 and len(d4) == 12):
        raise Unrecognised("digit tables")
    f["digits_lexer"] = [(c, int(v)) for c, v in d1]
    f["digits_bn_en"] = d2
    f["digits_en_bn"] = d3
    f["digits_print"] = d4

    m = re.search(r"let function_list = vec!\[(.*?)\];", builtins, flags=re.S)
    if not m:
        raise Unrecognised("built-in name list")
    f["builtins"] = re.findall(r'"([^"]+)"', m.group(1))
    ty = re.findall(r'DataType::(\w+)(?:\(_\))? => DataType::String\(String::from\("([^"]+)"\)\)', fn_body(builtins, "_type"))
    if len(ty) != 7:
        raise Unrecognised("type names")
    f["types"] = ty
    m = re.search(r"if self\.total_allocated_object_count >= (\d+) \{", fn_body(interp, "run"))
    if not m:
        raise Unrecognised("collection threshold")
    f["threshold"] = int(m.group(1))
    m = re.search(r'root_scope\.insert\("([^"]+)"\.to_string\(\)', interp)
    f["platform_const"] = m.group(1) if m else None
    m = re.search(r'if var_name\s*== "([^"]+)"\.to_string\(\)', fn_body(parser, "is_dirname_constant"))
    f["dirname_const"] = m.group(1) if m else None
    if not f["platform_const"] or not f["dirname_const"]:
        raise Unrecognised("built-in constants")
    m = re.search(r'if token\.lexeme\.iter\(\)\.collect::<String>\(\) == "([^"]+)"', fn_body(parser, "prepend_with_import_name"))
    f["platform_not_renamed"] = m.group(1) if m else ""
    bools = re.findall(r'(true|false) => "([^"]+)"\.to_string\(\)', fn_body(interp, "to_bn_bool"))
    if len(bools) != 2:
        raise Unrecognised("boolean words")
    f["bools"] = bools

    ladder = []
    order = ["or", "and", "equality", "comparison", "addition", "multiplication"]
    for name in order:
        body = fn_body(parser, name)
        m = re.search(r"let mut expr = self\.(\w+)\(\)\?;", body)
        w = re.search(r"while (.*?)\{", body, flags=re.S)
        c = re.search(r"expr = Expr::(\w+)\(", body)
        r = re.search(r"let right = self\.(\w+)\(\)\?;", body)
        if not (m and w and c and r) or m.group(1) != r.group(1):
            raise Unrecognised(f"ladder level {name}")
        ops = re.findall(r"TokenKind::\s*(\w+)", w.group(1))
        ladder.append((name, [TK[o] for o in ops], m.group(1), c.group(1)))
    f["ladder"] = ladder
    m = re.search(r"fn expression\(&mut self\)[^{]*\{\s*self\.(\w+)\(\)", parser)
    f["expression_entry"] = m.group(1) if m else None
    ub = fn_body(parser, "unary")
    f["unary_ops"] = [TK[o] for o in re.findall(r"== TokenKind::(\w+)", ub)]
    m = re.search(r"return self\.(\w+)\(\);", ub)
    f["unary_next"] = m.group(1) if m else None
    return f


CTOR_LEVEL = {"Or": 0, "And": 1, "Equality": 2, "Comparison": 3, "AddOrSub": 4, "MulOrDivOrRemainder": 5}


def lean_of(f):
    o = ["/- GENERATED on every run by tools/srcfacts.py from /repo's Rust source.  Do not edit. -/",
         "import Pakhi.Model.Lexer", "", "namespace Pakhi", "namespace Generated", ""]
    o.append("def keywords : List (List Nat × TK) := [" + ", ".join(f"({chars(w)}, {k})" for w, k in f["keywords"]) + "]")
    o.append("def simpleToks : List (Nat × TK) := [" + ", ".join(f"({ord(c)}, {k})" for c, k in f["simple"]) + "]")
    o.append("def twoCharToks : List (Nat × Nat × TK × TK) := [" + ", ".join(f"({ord(c)}, {ord(d)}, {k2}, {k1})" for c, d, k2, k1 in f["two"]) + "]")
    o.append(f"def minusArm : TK × TK := ({f['minus'][0]}, {f['minus'][1]})")
    o.append("def blanks : List Nat := [" + ", ".join(str(ord(c)) for c in f["blanks"]) + "]")
    pat = {"Num": ".num _", "String": ".str _", "Bool": ".bool _"}
    o.append("def afterOperand : TK → Bool")
    for k in f["after_operand"]:
        o.append(f"  | {pat.get(k) or TK[k]} => true")
    o.append("  | _ => false")
    o.append("def identExtra : List Nat := [" + ", ".join(str(ord(c)) for c in f["ident_extra"]) + "]")
    o.append("def digitsLexer : List (Nat × Nat) := [" + ", ".join(f"({ord(c)}, {v})" for c, v in f["digits_lexer"]) + "]")
    o.append("def digitsBnEn : List (Nat × Nat) := [" + ", ".join(f"({ord(c)}, {ord(v)})" for c, v in f["digits_bn_en"]) + "]")
    o.append("def digitsEnBn : List (Nat × Nat) := [" + ", ".join(f"({ord(c)}, {ord(v)})" for c, v in f["digits_en_bn"]) + "]")
    o.append("def digitsPrint : List (Nat × Nat) := [" + ", ".join(f"({ord(c)}, {ord(v)})" for c, v in f["digits_print"]) + "]")
    o.append("def builtins : List (List Nat) := [" + ", ".join(chars(w) for w in f["builtins"]) + "]")
    tyi = {"Num": 0, "Bool": 1, "String": 2, "List": 3, "NamelessRecord": 4, "Function": 5, "Nil": 6}
    o.append("/-- (index of the `DataType` variant in declaration order, name) -/")
    o.append("def typeNames : List (Nat × List Nat) := [" + ", ".join(f'({tyi.get(t, 99)}, {chars(w)})' for t, w in f["types"]) + "]")
    o.append(f"def gcThreshold : Nat := {f['threshold']}")
    o.append(f"def platformConst : List Nat := {chars(f['platform_const'])}")
    o.append(f"def platformNotRenamed : List Nat := {chars(f['platform_not_renamed'])}")
    o.append(f"def dirnameConst : List Nat := {chars(f['dirname_const'])}")
    o.append("def boolWords : List (Bool × List Nat) := [" + ", ".join(f"({b}, {chars(w)})" for b, w in f["bools"]) + "]")
    names = [l[0] for l in f["ladder"]] + ["unary"]
    rows = []
    for i, (name, ops, nxt, ctor) in enumerate(f["ladder"]):
        nxt_i = names.index(nxt) if nxt in names else 99
        rows.append(f"({i}, [{', '.join(ops)}], {nxt_i}, {CTOR_LEVEL.get(ctor, 99)})")
    o.append("/-- (level, operators, level of the operand parser, level of the AST constructor) -/")
    o.append("def ladder : List (Nat × List TK × Nat × Nat) := [" + ", ".join(rows) + "]")
    o.append(f"def expressionEntry : Nat := {names.index(f['expression_entry']) if f['expression_entry'] in names else 99}")
    o.append("def unaryOps : List TK := [" + ", ".join(f["unary_ops"]) + "]")
    o.append(f"/-- 1 iff `unary()` falls through to `call()` -/")
    o.append(f'def unaryNextIsCall : Nat := {1 if f["unary_next"] == "call" else 0}')
    o += ["", "end Generated", "end Pakhi", ""]
    return "\n".join(o)


def generate(repo, out_path):
    try:
        txt = lean_of(extract(repo))
    except Unrecognised as e:
        return False, f"shape not recognised: {e}"
    except Exception as e:  # a source file is missing or unreadable
        return False, f"extraction failed: {e!r}"
    old = open(out_path, encoding="utf-8").read() if os.path.exists(out_path) else None
    if old != txt:
        os.makedirs(os.path.dirname(out_path), exist_ok=True)
        open(out_path, "w", encoding="utf-8").write(txt)
    return True, ""


if __name__ == "__main__":
    ok, msg = generate(sys.argv[1] if len(sys.argv) > 1 else "/repo",
                       os.path.join(os.path.dirname(os.path.dirname(os.path.abspath(__file__))), "lean", "Pakhi", "Generated", "SrcFacts.lean"))
    print("ok" if ok else msg)
