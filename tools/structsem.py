"""An executable *structured* semantics of Pakhi over the program trees of gen.py (DESIGN.md
`Spec/Struct`): big-step, signals normal/break/continue/return, dynamic scoping, reference
containers.  It is written independently of the flat-statement interpreter and of the Lean model and
serves as the specification oracle for C02–C06, C16–C19: implementation output must equal what the
tree denotes."""
import math
import gen as G
from props.C09 import plain

from common import M_REC_START, M_ENT_START, M_ENT_END, M_REC_END


class PakhiError(Exception):
    def __init__(self, cls, what="", msg=None):
        self.cls = cls
        self.what = what
        self.msg = msg


class StepLimit(Exception):
    pass


class Ref:
    def __init__(self, kind, data):
        self.kind = kind      # 'list' | 'rec'
        self.data = data      # python list | dict (insertion ordered)


class Func:
    def __init__(self, name, params, body, closing=None):
        self.name, self.params, self.body, self.closing = name, params, body, closing


NIL = ("nil",)


class Brk(Exception):
    pass


class Cont(Exception):
    pass


class Ret(Exception):
    def __init__(self, v):
        self.v = v


def to_num(text):
    return float(text.translate(str.maketrans(G.BN, "0123456789")))


def list_pos(n, length):
    if n >= 0.0 and not (n != n):
        k = int(min(n, 1e18))
        if k < length:
            return k
    return None


class SizeLimit(Exception):
    pass


class Interp:
    def __init__(self, max_steps=200000):
        self.scopes = [{"_প্ল্যাটফর্ম": "linux"}]
        self.out = []
        self.steps = max_steps

    def tick(self):
        self.steps -= 1
        if self.steps < 0:
            raise StepLimit()

    def grow(self, n):
        """size budget: a program whose strings / lists grow without bound (e.g. doubling in a loop) is not a test
        case — it would exhaust the memory of the oracle, the model and the implementation alike"""
        self.budget = getattr(self, "budget", 4000000) - n
        if self.budget < 0:
            raise SizeLimit()

    # ---- values ------------------------------------------------------------------------
    def lookup(self, name):
        for sc in reversed(self.scopes):
            if name in sc:
                return sc[name]
        raise PakhiError("runtime", "undeclared " + name)

    def render(self, v, top=True):
        if isinstance(v, bool):
            return "সত্য" if v else "মিথ্যা"
        if isinstance(v, float):
            if v != v or v in (float("inf"), float("-inf")):
                raise PakhiError("runtime", "unprintable number")
            return G.bn_digits(plain(v))
        if isinstance(v, str):
            return v
        if isinstance(v, Ref) and v.kind == "list":
            parts = []
            for x in v.data:
                parts.append(self.render(x, False))
            return "[" + ", ".join(parts) + "]"
        if isinstance(v, Ref):
            s = "@{" + M_REC_START
            for k, x in v.data.items():
                s += M_ENT_START + '"' + k + '":' + self.render(x, False) + "," + M_ENT_END
            return s + M_REC_END + "}"
        raise PakhiError("type" if top else "runtime", "print nil/function")

    def emit_value(self, v, eol):
        # containers are written piecewise: what precedes a failing element stays printed
        def go(v, top):
            if isinstance(v, Ref) and v.kind == "list":
                self.out.append("[")
                for i, x in enumerate(v.data):
                    if i:
                        self.out.append(", ")
                    go(x, False)
                self.out.append("]")
            elif isinstance(v, Ref):
                self.out.append("@{" + M_REC_START)
                for k, x in v.data.items():
                    self.out.append(M_ENT_START + '"' + k + '":')
                    go(x, False)
                    self.out.append("," + M_ENT_END)
                self.out.append(M_REC_END + "}")
            else:
                self.out.append(self.render(v, top))
        go(v, True)
        if eol:
            self.out.append("\n")

    # ---- expressions -------------------------------------------------------------------
    def ev(self, e):
        self.tick()
        k = e[0]
        if k == "num":
            return to_num(e[1])
        if k == "str":
            return e[1]
        if k == "bool":
            return e[1]
        if k == "var":
            return self.lookup(e[1])
        if k == "grp":
            return self.ev(e[1])
        if k == "list":
            return Ref("list", [self.ev(x) for x in e[1]])
        if k == "rec":
            d = {}
            for kk, vv in e[1]:
                key = self.ev(kk)
                if isinstance(key, str):
                    d[key] = self.ev(vv)
            return Ref("rec", d)
        if k == "un":
            v = self.ev(e[2])
            if e[1] == "-" and isinstance(v, float):
                return v * -1.0
            if e[1] == "!" and isinstance(v, bool):
                return not v
            raise PakhiError("type", "unary")
        if k == "bin":
            op = e[1]
            if op in ("&", "|", "*", "/", "%"):
                r = self.ev(e[3]); l = self.ev(e[2])
            else:
                l = self.ev(e[2]); r = self.ev(e[3])
            return self.binop(op, l, r)
        if k == "idx":
            c = self.ev(e[1]); i = self.ev(e[2])
            if isinstance(c, Ref) and c.kind == "list" and isinstance(i, float):
                p = list_pos(i, len(c.data))
                if p is None:
                    raise PakhiError("runtime", "index out of range")
                return c.data[p]
            if isinstance(c, Ref) and c.kind == "rec" and isinstance(i, str):
                if i not in c.data:
                    raise PakhiError("runtime", "missing key")
                return c.data[i]
            if isinstance(i, float):
                raise PakhiError("runtime", "only list number index")
            if isinstance(c, Ref) and c.kind == "list":
                raise PakhiError("type", "list index type")
            if isinstance(i, str):
                raise PakhiError("runtime", "only record string index")
            if isinstance(c, Ref):
                raise PakhiError("type", "record index type")
            raise PakhiError("runtime", "invalid indexing")
        if k == "call":
            return self.call(e)
        raise ValueError(k)

    def binop(self, op, l, r):
        isnum = lambda x: isinstance(x, float)
        isbool = lambda x: isinstance(x, bool)
        if op in ("&", "|"):
            if isbool(l) and isbool(r):
                return (l and r) if op == "&" else (l or r)
            raise PakhiError("type", op)
        if op in ("==", "!="):
            if type(l) != type(r):
                eq = False
            elif isinstance(l, Ref):
                eq = l is r
            elif isinstance(l, Func):
                eq = l is r
            elif l is NIL or isinstance(l, tuple):
                eq = True
            else:
                eq = l == r
            return eq if op == "==" else not eq
        if op in ("<", "<=", ">", ">="):
            if isnum(l) and isnum(r):
                return {"<": l < r, "<=": l <= r, ">": l > r, ">=": l >= r}[op]
            raise PakhiError("type", op)
        if op in ("+", "-"):
            if isnum(l) and isnum(r):
                return l + r if op == "+" else l - r
            if isinstance(l, str) and isinstance(r, str) and op == "+":
                self.grow(len(l) + len(r))
                return l + r
            if isinstance(l, Ref) and isinstance(r, Ref) and l.kind == "list" and r.kind == "list" and op == "+":
                self.grow(len(l.data) + len(r.data))
                return Ref("list", list(l.data) + list(r.data))
            raise PakhiError("type", op)
        if isnum(l) and isnum(r):
            if op == "*":
                return l * r
            if op == "/":
                if r == 0:
                    if l == 0 or l != l:
                        return float("nan")
                    return math.copysign(float("inf"), l) * math.copysign(1.0, r)
                return l / r
            if r == 0 or l in (float("inf"), float("-inf")) or l != l or r != r:
                return float("nan")
            return math.fmod(l, r)
        raise PakhiError("type", op)

    def call(self, e):
        callee = e[1]
        while callee[0] == "grp":
            callee = callee[1]
        if callee[0] != "var":
            raise PakhiError("runtime", "calling non-name")
        name = callee[1]
        if name in BUILTINS:
            args = [self.ev(a) for a in e[2]]
            return BUILTINS[name](self, args)
        f = self.lookup(name)
        if not isinstance(f, Func):
            raise PakhiError("runtime", "not a function")
        env = {}
        for i, p in enumerate(f.params):
            env[p] = self.ev(e[2][i]) if i < len(e[2]) else NIL
        depth = len(self.scopes)
        self.scopes.append(env)
        try:
            try:
                self.block(f.body)
                # the return written after the block: evaluated once the body block (and its locals) are gone
                v = self.ev(f.closing) if f.closing is not None else NIL
            except Ret as r:
                v = r.v
            except (Brk, Cont):
                raise PakhiError("runtime", "break/continue outside loop in function")
        finally:
            del self.scopes[depth:]
        return v

    # ---- statements --------------------------------------------------------------------
    def block(self, sts):
        """`{ sts }`: a fresh scope, discarded however the block is left"""
        depth = len(self.scopes)
        self.scopes.append({})
        try:
            self.seq(sts)
        finally:
            del self.scopes[depth:]

    def seq(self, sts):
        for st in sts:
            self.exec(st)

    def exec(self, st):
        self.tick()
        k = st[0]
        if k == "print" or k == "printn":
            v = self.ev(st[1])
            if v is NIL or isinstance(v, Func) or isinstance(v, tuple):
                raise PakhiError("type", "print nil/function")
            self.emit_value(v, k == "print")
        elif k == "decl":
            self.scopes[-1][st[1]] = self.ev(st[2]) if st[2] is not None else NIL
        elif k == "assign":
            v = self.ev(st[3])
            for sc in reversed(self.scopes):
                if st[1] in sc:
                    break
            else:
                raise PakhiError("runtime", "assign undeclared")
            if not st[2]:
                sc[st[1]] = v
            else:
                ixs = [self.ev(i) for i in st[2]]
                c = sc[st[1]]
                for n, ix in enumerate(ixs):
                    last = n == len(ixs) - 1
                    if isinstance(c, Ref) and c.kind == "list" and isinstance(ix, float):
                        p = list_pos(ix, len(c.data))
                        if p is None:
                            raise PakhiError("runtime", "index out of range")
                        if last:
                            c.data[p] = v
                        else:
                            c = c.data[p]
                    elif isinstance(c, Ref) and c.kind == "rec" and isinstance(ix, str):
                        if last:
                            c.data[ix] = v
                        elif ix in c.data:
                            c = c.data[ix]
                        else:
                            raise PakhiError("runtime", "missing key")
                    elif isinstance(c, Ref):
                        raise PakhiError("runtime", "wrong index type")
                    else:
                        raise PakhiError("type", "not indexable")
        elif k == "expr":
            self.ev(st[1])
        elif k == "block":
            self.block(st[1])
        elif k == "if":
            for c, body in st[1]:
                v = self.ev(c)
                if not isinstance(v, bool):
                    raise PakhiError("runtime", "non-boolean condition")
                if v:
                    self.block(body)
                    return
            if st[2] is not None:
                self.block(st[2])
        elif k == "loop":
            while True:
                self.tick()
                try:
                    self.block(st[1])
                except Brk:
                    break
                except Cont:
                    continue
        elif k == "break":
            raise Brk()
        elif k == "continue":
            raise Cont()
        elif k == "func":
            self.scopes[-1][st[1]] = Func(st[1], st[2], st[3], st[4] if len(st) > 4 else None)
        elif k == "return":
            raise Ret(self.ev(st[1]) if st[1] is not None else NIL)
        elif k == "comment":
            pass
        else:
            raise ValueError(k)


def _arity(n):
    def deco(f):
        def g(it, args):
            if len(args) not in (n if isinstance(n, tuple) else (n,)):
                raise PakhiError("runtime", "arity")
            return f(it, args)
        return g
    return deco


def _islist(v):
    return isinstance(v, Ref) and v.kind == "list"


@_arity((2, 3))
def b_push(it, a):
    if not _islist(a[0]):
        raise PakhiError("runtime", "not a list")
    if len(a) == 2:
        a[0].data.append(a[1])
    else:
        if not isinstance(a[1], float) or isinstance(a[1], bool):
            raise PakhiError("runtime", "index type")
        p = list_pos(a[1], len(a[0].data) + 1)
        if p is None:
            raise PakhiError("runtime", "index out of range")
        a[0].data.insert(p, a[2])
    return NIL


@_arity((1, 2))
def b_pop(it, a):
    if not _islist(a[0]):
        raise PakhiError("runtime", "not a list")
    if len(a) == 1:
        if a[0].data:
            a[0].data.pop()
    else:
        if not isinstance(a[1], float) or isinstance(a[1], bool):
            raise PakhiError("runtime", "index type")
        p = list_pos(a[1], len(a[0].data))
        if p is None:
            raise PakhiError("runtime", "index out of range")
        del a[0].data[p]
    return NIL


@_arity(1)
def b_len(it, a):
    if not _islist(a[0]):
        raise PakhiError("runtime", "not a list")
    return float(len(a[0].data))


@_arity(1)
def b_tostr(it, a):
    if not isinstance(a[0], float) or isinstance(a[0], bool):
        raise PakhiError("runtime", "not a number")
    x = a[0]
    if x != x:
        return "NaN"
    if x in (float("inf"), float("-inf")):
        return "inf" if x > 0 else "-inf"
    return G.bn_digits(plain(x))


@_arity(1)
def b_tonum(it, a):
    if not isinstance(a[0], str):
        raise PakhiError("runtime", "not a string")
    t = a[0].translate(str.maketrans(G.BN, "0123456789"))
    import re
    if not re.fullmatch(r"[+-]?(\d+\.?\d*|\.\d+)([eE][+-]?\d+)?", t):
        raise PakhiError("runtime", "not a number")
    try:
        x = float(t)
    except Exception:
        raise PakhiError("runtime", "not a number")
    if x in (float("inf"), float("-inf")):
        raise PakhiError("runtime", "not finite")
    return x


@_arity(1)
def b_type(it, a):
    v = a[0]
    if isinstance(v, bool):
        return G.canon("_বুলিয়ান")
    if isinstance(v, float):
        return "_সংখ্যা"
    if isinstance(v, str):
        return "_স্ট্রিং"
    if isinstance(v, Ref):
        return "_লিস্ট" if v.kind == "list" else "_রেকর্ড"
    if isinstance(v, Func):
        return "_ফাং"
    return "_শূন্য"


@_arity(2)
def b_split(it, a):
    if not isinstance(a[0], str) or not isinstance(a[1], str):
        raise PakhiError("runtime", "split types")
    if a[1] == "":
        return Ref("list", list(a[0]))
    return Ref("list", a[0].split(a[1]))


@_arity(2)
def b_join(it, a):
    if not _islist(a[0]) or not isinstance(a[1], str):
        raise PakhiError("runtime", "join types")
    if not all(isinstance(x, str) for x in a[0].data):
        raise PakhiError("runtime", "join elements")
    return a[1].join(a[0].data)


def b_error(it, a):
    if len(a) == 1 and isinstance(a[0], str):
        raise PakhiError("runtime", "user error", msg=a[0])
    raise PakhiError("runtime", "bad _এরর call")


BUILTINS = {G.canon(k): v for k, v in {"_লিস্ট-পুশ": b_push, "_লিস্ট-পপ": b_pop, "_লিস্ট-লেন": b_len, "_স্ট্রিং": b_tostr, "_সংখ্যা": b_tonum,
            "_টাইপ": b_type, "_স্ট্রিং-স্প্লিট": b_split, "_স্ট্রিং-জয়েন": b_join, "_এরর": b_error}.items()}


def run(prog, max_steps=200000):
    """returns (output template, status) with status 'ok' | ('err', class, msg) | 'steps'"""
    it = Interp(max_steps)
    try:
        try:
            it.seq(prog)
            st = "ok"
        except (Brk, Cont):
            st = ("err", "runtime", None)
        except Ret:
            st = ("err", "runtime", None)
    except PakhiError as e:
        st = ("err", e.cls, e.msg)
    except StepLimit:
        st = "steps"
    except SizeLimit:
        st = "toobig"
    except RecursionError:
        st = "steps"
    return "".join(it.out), st
